#!/bin/sh
# Nothing to compile: the framework is Python + C headers.  Check that the tools are present and warm nothing.
set -e
for t in python3 clang++-14 g++ goto-cc goto-instrument cbmc kissat; do
  command -v $t >/dev/null || { echo "missing tool $t" >&2; exit 1; }
done
mkdir -p /verif/.cache /verif/.build /verif/evidence
echo setup ok
