#!/usr/bin/env python3
"""Debug aid: compact tree view of a clang JSON AST dump (one or more concatenated docs)."""
import json, sys
def load(p):
    s = open(p).read(); dec = json.JSONDecoder(); i = 0; docs = []
    while i < len(s):
        while i < len(s) and s[i] in ' \n\r\t': i += 1
        if i >= len(s): break
        if s[i] != '{':
            j = s.find('\n', i); i = j + 1 if j >= 0 else len(s); continue
        d, j = dec.raw_decode(s, i); docs.append(d); i = j
    return docs
def show(n, ind=0, out=sys.stdout):
    if not isinstance(n, dict) or 'kind' not in n:
        out.write('  '*ind + '<null>\n'); return
    t = n.get('type', {})
    bits = [n['kind']]
    for k in ('name','opcode','castKind','value','valueCategory','isArrow','isPostfix','mangledName'):
        if k in n: bits.append('%s=%s' % (k, n[k]))
    if t: bits.append('T=' + t.get('qualType','') + ('  [D=' + t['desugaredQualType'] + ']' if 'desugaredQualType' in t else ''))
    rd = n.get('referencedDecl') or {}
    if rd: bits.append('ref=%s:%s:%s' % (rd.get('kind'), rd.get('name'), rd.get('type',{}).get('qualType')))
    if 'referencedMemberDecl' in n: bits.append('rmd=' + n['referencedMemberDecl'])
    if 'id' in n and n['kind'].endswith('Decl'): bits.append('id=' + n['id'])
    out.write('  '*ind + ' '.join(str(b) for b in bits) + '\n')
    for c in n.get('inner', []): show(c, ind+1, out)
if __name__ == '__main__':
    for d in load(sys.argv[1]):
        if len(sys.argv) > 2 and d.get('name') != sys.argv[2]: continue
        show(d)
