"""Native replay: re-evaluate an obligation's post-conditions against the REAL functions of /repo with the
counterexample's inputs (g++ TU that includes /repo/src/ada.cpp, -fno-access-control)."""
import re, os
from .common import REPO, VERIF
from .registry import R
from . import tabdump
from .cxx2c import parse_fn_params, pass_mode
from .ctypes_map import map_type

BUFN = 64

PRELUDE = r'''
#include <cstdint>
#include <cstddef>
#include <cstring>
typedef bool _Bool;
struct sv_t { const char* p; size_t n; operator std::string_view() const { return std::string_view(p, n); } };
static char g_buf[BUF_N + 1], g_buf2[BUF_N + 1];
static size_t g_k, g_k2;
static int n_fail = 0;
#define __CPROVER_assert(c, msg) do { if (!(c)) { std::printf("FAIL: %s\n", msg); n_fail++; } } while (0)
#define __CPROVER_assume(c) do { if (!(c)) { std::printf("SKIP: assumption does not hold natively: %s\n", #c); return 0; } } while (0)
#define CANARY_POINT ((void)0)
#define HAVOC_BUFS ((void)0)
#ifdef BUF_START
#define BUF_AT(buf, n) (buf)
#else
#define BUF_AT(buf, n) ((buf) + (BUF_N - (n)))
#endif
#define MAKE_SV(v) do { (v).p = BUF_AT(g_buf, (v).n); } while (0)
#define MAKE_SV2(v) do { (v).p = BUF_AT(g_buf2, (v).n); } while (0)
#define OFF(base) ((size_t)(((const char*)(base)) - (((const char*)(base)) >= g_buf2 && ((const char*)(base)) <= g_buf2 + BUF_N ? g_buf2 : g_buf)))
#define GK_IN(base, lo, hi) (g_k >= OFF(base) + (lo) && g_k < OFF(base) + (hi))
#define GK_AT(base) ((base)[g_k - OFF(base)])
#define GK2_IN(base, lo, hi) (g_k2 >= OFF(base) + (lo) && g_k2 < OFF(base) + (hi))
#define GK2_AT(base) ((base)[g_k2 - OFF(base)])
#define ND_SV(v) sv_t v; (v).n = W_n_##v; MAKE_SV(v)
#define ND_SV2(v) sv_t v; (v).n = W_n_##v; MAKE_SV2(v)
#define NPOS ((size_t)-1)
template <class A> struct ArrShim { const A& a; };
'''


def implies_to_cxx(e):
    """rewrite top-level `A ==> B` (right associative) into (!(A) || (B))"""
    depth = 0
    i = 0
    while i < len(e) - 2:
        ch = e[i]
        if ch in '([{':
            depth += 1
        elif ch in ')]}':
            depth -= 1
        elif depth == 0 and e.startswith('==>', i):
            return '(!(%s) || (%s))' % (e[:i].strip(), implies_to_cxx(e[i + 3:].strip()))
        i += 1
    # recurse into parenthesised sub-expressions containing ==>
    if '==>' in e:
        out = ''
        i = 0
        while i < len(e):
            if e[i] == '(':
                d = 1; j = i + 1
                while j < len(e) and d:
                    d += e[j] == '('; d -= e[j] == ')'; j += 1
                inner = e[i + 1:j - 1]
                out += '(' + implies_to_cxx(inner) + ')'
                i = j
            else:
                out += e[i]; i += 1
        return out
    return e


def clause_bodies(lines, kw):
    """extract the argument text of __CPROVER_<kw>( ... ) clauses (may span lines)"""
    text = '\n'.join(lines)
    out = []
    key = '__CPROVER_%s(' % kw
    i = 0
    while True:
        j = text.find(key, i)
        if j < 0:
            break
        k = j + len(key); d = 1
        while k < len(text) and d:
            d += text[k] == '('; d -= text[k] == ')'; k += 1
        out.append(text[j + len(key):k - 1])
        i = k
    return out


def shims(functions, globals_needed, tables_text):
    out = []
    for line in tables_text.splitlines():
        if line.startswith('#define E_'):
            out.append(line)
    for name, q in sorted(globals_needed):
        cxx = tabdump.GLOBALS.get(name)
        if not cxx:
            continue
        if 'std::array' in q:
            out.append('static const ArrShim<decltype(%s)> G_%s{%s};' % (cxx, name, cxx))
        else:
            out.append('#define G_%s %s' % (name, cxx))
    for c in functions:
        r = R.get(c)
        if r and not r['cls']:
            q = r['filt'] if '::' in r['filt'] else r['filt']
            qn = qualified(c)
            if qn.split('::')[-1] == c:
                out.append('using %s;' % qn)
            else:
                out.append('#define %s %s' % (c, qn))
    return '\n'.join(out)


def qualified(cname):
    r = R[cname]
    f = r['filt']
    if '::' not in f:
        # anonymous-namespace / file-local helpers: find by unqualified name inside ada namespaces
        return {'write_u8': 'ada::serializers::write_u8', 'write_hex_u16': 'ada::serializers::write_hex_u16',
                'try_can_parse_absolute_fast': 'ada::try_can_parse_absolute_fast',
                'apply_shifted_non_scheme_offsets': '::apply_shifted_non_scheme_offsets'}.get(f, f)
    return f


def witness_defines(w):
    out = []
    for k, v in sorted(w.get('scalars', {}).items()):
        if re.match(r'^\w+$', k):
            out.append('#define W_%s %s' % (k, v))
        m = re.match(r'^(\w+)\.n$', k)
        if m:
            out.append('#define W_n_%s %s' % (m.group(1), v))
    return '\n'.join(out)


def buf_init(w):
    out = []
    for nm in ('g_buf', 'g_buf2'):
        bs = w.get(nm)
        if bs:
            out.append('  { static const unsigned char b[] = {%s}; std::memcpy(%s, b, sizeof b); }' % (
                ','.join(str(x & 0xFF) for x in bs), nm))
    return '\n'.join(out)


def program(o, info, w, spec_lines=None, fn_node=None, harness_text=None):
    """Return full C++ source for the native replay of obligation o with witness w, or None."""
    inc = ''.join('#include "%s/%s"\n' % (VERIF, i) for i in o.includes)
    head = '#include "' + REPO + '/src/ada.cpp"\n#include <cstdio>\n#include <string>\n#include <string_view>\n#define BUF_N %d\n%s' % (o.bufn or BUFN, '#define BUF_START 1\n' if 'BUF_START' in o.defines else '')
    head += ''.join('#define %s\n' % d.replace('=', ' ', 1) for d in o.defines if not d.startswith('BUF_START')) + PRELUDE + inc
    head += shims(info.get('functions', []) + list(o.roots), set(info.get('globals_q', [])) | set(o.globals), info.get('tables', '')) + '\n'
    head += witness_defines(w) + '\n'
    if o.enforce and fn_node is not None and spec_lines is not None:
        if R[o.enforce]['cls']:
            return None
        params, _ = parse_fn_params(fn_node['type']['qualType'])
        pn = [p for p in fn_node.get('inner', []) if p.get('kind') == 'ParmVarDecl']
        decl, args = [], []
        nsv = 0
        sc = w.get('scalars', {})
        for p, pt in zip(pn, params):
            name = p['name']
            mode, ct = pass_mode(pt)
            if ct.klass == 'sv':
                nsv += 1
                buf = 'g_buf' if nsv == 1 else 'g_buf2'
                n = sc.get(name + '.n')
                if n is None:
                    return None
                decl.append('  sv_t %s = {BUF_AT(%s, %s), %s};' % (name, buf, n, n))
                args.append('&' + name if False else name)
                if mode == 'ptr':
                    return None
            elif ct.klass is None and not ct.arr and mode == 'val' and not ct.ptr:
                v = sc.get(name)
                if v is None:
                    return None
                decl.append('  %s %s = (%s)%s;' % (ct.c.replace('_Bool', 'bool'), name, ct.c.replace('_Bool', 'bool'), v))
                args.append('(%s)%s' % (cxx_type(pt), name) if 'ada::' in pt else name)
            else:
                return None
        ens = [e for e in clause_bodies(spec_lines, 'ensures') if 'is_fresh' not in e and '__CPROVER_old' not in e]
        body = '\n'.join(decl) + '\n' + buf_init(w) + '\n'
        body += '  auto __ret = %s(%s);\n' % (qualified(o.enforce), ', '.join(args))
        body += '  for (g_k = 0; g_k <= BUF_N; g_k++) for (g_k2 = 0; g_k2 <= (%s); g_k2++) {\n' % ('BUF_N' if any('g_k2' in e or 'GK2' in e for e in ens) else '0')
        for e in ens:
            ce = implies_to_cxx(e.replace('__CPROVER_return_value', '__ret'))
            body += '    if (!(%s)) { std::printf("FAIL: ensures %%s (g_k=%%zu)\\n", %s, g_k); return 1; }\n' % (ce, cstr(e))
        body += '  }\n  std::printf("OK: all ensures hold natively\\n");\n'
        return head + 'int main() {\n' + body + '  return 0;\n}\n'
    if harness_text is not None and not o.enforce:
        ht = harness_text
        ht = re.sub(r'NONDET\(\s*([\w ]+?)\s*,\s*(\w+)\s*\)', lambda m: '%s %s = (%s)W_%s' % (m.group(1), m.group(2), m.group(1), m.group(2)), ht)
        ht = ht.replace('void harness(void)', 'static int harness_native()')
        ht = re.sub(r'\}\s*$', '  return 0;\n}\n', ht.rstrip() + '\n')
        body = buf_init(w) + '\n  harness_native();\n  if (n_fail == 0) std::printf("OK: all assertions hold natively\\n");\n  return n_fail ? 1 : 0;\n'
        return head + ht + '\nint main() {\n' + body + '}\n'
    return None


def cxx_type(pt):
    return pt.replace('const ', '').strip()


def cstr(s):
    return '"' + s.replace('\\', '\\\\').replace('"', '\\"').replace('\n', ' ') + '"'
