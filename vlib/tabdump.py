"""tabdump: values of constexpr/consteval data and enumerators, printed by a g++-compiled TU that includes
/repo/src/ada.cpp (so each table is what the shipped compiler computes)."""
import os, re
from . import ast as A
from .common import REPO, run, sha, Undecided, ensure_dir
from .ctypes_map import map_type

# name used in the code -> qualified C++ expression (the translator knows only unqualified names)
GLOBALS = {
    'hex': 'ada::character_sets::hex',
    'C0_CONTROL_PERCENT_ENCODE': 'ada::character_sets::C0_CONTROL_PERCENT_ENCODE',
    'SPECIAL_QUERY_PERCENT_ENCODE': 'ada::character_sets::SPECIAL_QUERY_PERCENT_ENCODE',
    'QUERY_PERCENT_ENCODE': 'ada::character_sets::QUERY_PERCENT_ENCODE',
    'FRAGMENT_PERCENT_ENCODE': 'ada::character_sets::FRAGMENT_PERCENT_ENCODE',
    'USERINFO_PERCENT_ENCODE': 'ada::character_sets::USERINFO_PERCENT_ENCODE',
    'PATH_PERCENT_ENCODE': 'ada::character_sets::PATH_PERCENT_ENCODE',
    'WWW_FORM_URLENCODED_PERCENT_ENCODE': 'ada::character_sets::WWW_FORM_URLENCODED_PERCENT_ENCODE',
    'is_forbidden_host_code_point_table': 'ada::unicode::is_forbidden_host_code_point_table',
    'is_forbidden_domain_code_point_table': 'ada::unicode::is_forbidden_domain_code_point_table',
    'is_forbidden_domain_code_point_table_or_upper': 'ada::unicode::is_forbidden_domain_code_point_table_or_upper',
    'is_alnum_plus_table': 'ada::unicode::is_alnum_plus_table',
    'table_is_double_dot_path_segment': 'ada::unicode::table_is_double_dot_path_segment',
    'hex_to_binary_table': 'ada::unicode::hex_to_binary_table',
    'unhex_table': 'ada::unicode::unhex_table',
    'path_signature_table': 'ada::checkers::path_signature_table',
    'hex_nibble': 'ada::detail::hex_nibble',
    'digit_pairs': 'ada::serializers::digit_pairs',
    'is_special_list': 'ada::scheme::details::is_special_list',
    'special_ports': 'ada::scheme::details::special_ports',
    'scheme_keys': 'ada::scheme::details::scheme_keys',
    'k_host_class': 'ada::parser::k_host_class',
    'k_rest': 'ada::parser::k_rest',
    'authority_delimiter_special': 'ada::helpers::authority_delimiter_special',
    'authority_delimiter': 'ada::helpers::authority_delimiter',
    'omitted': 'ada::url_components::omitted',
    'ipv4_fast_fail': 'ada::checkers::ipv4_fast_fail',
    'char_class_table': 'ada::url_pattern_helpers::char_class_table',
    'is_forbidden_domain_code_point_table__idna': 'ada::idna::is_forbidden_domain_code_point_table',
    'max_domain_input_bytes': 'ada::idna::max_domain_input_bytes',
    'CHAR_SCHEME': 'ada::url_pattern_helpers::CHAR_SCHEME', 'CHAR_UPPER': 'ada::url_pattern_helpers::CHAR_UPPER',
    'CHAR_SIMPLE_HOSTNAME': 'ada::url_pattern_helpers::CHAR_SIMPLE_HOSTNAME', 'CHAR_SIMPLE_PATHNAME': 'ada::url_pattern_helpers::CHAR_SIMPLE_PATHNAME',
    'base': 'ada::idna::base', 'tmin': 'ada::idna::tmin', 'tmax': 'ada::idna::tmax', 'skew': 'ada::idna::skew', 'damp': 'ada::idna::damp',
    'initial_bias': 'ada::idna::initial_bias', 'initial_n': 'ada::idna::initial_n',
}

COMP = '{%uU,%uU,%uU,%uU,%uU,%uU,%uU,%uU}'
COMPARGS = 'X.protocol_end, X.username_end, X.host_start, X.host_end, X.port, X.pathname_start, X.search_start, X.hash_start'
DEFAULTS = {
    'url_components_default': '  { ada::url_components c{}; std::printf("static const struct url_components G_url_components_default = %s;\\n", %s); }' % (COMP, COMPARGS.replace('X', 'c')),
    'url_aggregator_default': '  { ada::url_aggregator u{}; std::printf("static const struct url_aggregator G_url_aggregator_default = {{%%d,%%d,%%d,%%d}, {%%zu, {0}}, %s};\\n", (int)u.is_valid, (int)u.has_opaque_path, (int)u.host_type, (int)u.type, u.buffer.size(), %s); }' % (COMP, COMPARGS.replace('X', 'u.components')),
    'url_default': '  { ada::url u{}; std::printf("static const struct url G_url_default = {{%d,%d,%d,%d}, {%d,{0,{0}}}, {%zu,{0}}, {%d,{0,{0}}}, {%d,{0,{0}}}, {%d,0}, {%zu,{0}}, {%zu,{0}}, {%zu,{0}}};\\n", (int)u.is_valid, (int)u.has_opaque_path, (int)u.host_type, (int)u.type, (int)u.host.has_value(), u.path.size(), (int)u.query.has_value(), (int)u.hash.has_value(), (int)u.port.has_value(), u.username.size(), u.password.size(), u.non_special_scheme.size()); }',
}

PRELUDE = r'''
#include <cstdio>
#include <array>
#include <string_view>
#include <type_traits>
static void pv(unsigned long long v) { std::printf("%lluULL", v); }
template <class T> static void val(const T& v) {
  if constexpr (std::is_same_v<T, std::string_view>) {
    std::printf("{\"");
    for (unsigned char c : v) std::printf("\\x%02x", c);
    std::printf("\", %zu}", v.size());
  } else if constexpr (std::is_same_v<T, bool>) {
    std::printf("%d", v ? 1 : 0);
  } else if constexpr (std::is_signed_v<T>) {
    std::printf("%lld", (long long)v);
  } else {
    std::printf("%lluU", (unsigned long long)v);
  }
}
template <class T, size_t N> static void val(const std::array<T, N>& a) {
  std::printf("{{");
  for (size_t i = 0; i < N; i++) { if (i) std::printf(","); val(a[i]); }
  std::printf("}}");
}
template <class T, size_t N> static void val(const T (&a)[N]) {
  std::printf("{");
  for (size_t i = 0; i < N; i++) { if (i) std::printf(","); val(a[i]); }
  std::printf("}");
}
'''


def generate(cfg, globals_needed, enums_needed, src=None, extra_cpp=''):
    """globals_needed: set of (name, desugared qualType); enums_needed: set of (enum type, enumerator).
    Returns C text (declarations of G_<name> and #defines E_<type>_<name>)."""
    d = A.cache_dir(cfg, src)
    key = sha(repr(sorted(globals_needed)) + repr(sorted(enums_needed)) + extra_cpp)[:16]
    outp = os.path.join(d, 'tables_%s.h' % key)
    if os.path.exists(outp):
        return open(outp).read()
    lines = ['#include "%s"' % (src or REPO + '/src/ada.cpp'), PRELUDE, 'int main() {']
    for name, q in sorted(globals_needed):
        if q == '@default':
            lines.append(DEFAULTS[name])
            continue
        if name not in GLOBALS:
            raise Undecided('tabdump: global object %s (%s) is not in the closed list of dumpable data' % (name, q))
        ct = map_type(q)
        decl = 'static const %s G_%s%s' % (ct.c.replace('const ', ''), name, ct.arr)
        lines.append('  std::printf("%s = "); val(%s); std::printf(";\\n");' % (decl.replace('"', '\\"'), GLOBALS[name]))
    for et, en in sorted(enums_needed):
        cn = 'E_%s_%s' % (re.sub(r'[^A-Za-z0-9]+', '_', et), en)
        lines.append('  std::printf("#define %s %%lld\\n", (long long)(%s::%s));' % (cn, et, en))
    lines.append(extra_cpp)
    lines.append('  return 0; }')
    cpp = os.path.join(d, 'tabdump_%s.cpp' % key)
    exe = os.path.join(d, 'tabdump_%s.bin' % key)
    open(cpp, 'w').write('\n'.join(lines))
    fl = A.flags(cfg, src)
    fl = [f for f in fl if f != '-O2'] + ['-O0']
    rc, out, err, _ = run(['g++'] + fl + ['-w', '-fno-access-control', cpp, '-o', exe], timeout=600)
    if rc != 0:
        raise Undecided('tabdump: g++ failed: ' + err[-3000:])
    rc, out, err, _ = run([exe], timeout=60)
    if rc != 0:
        raise Undecided('tabdump: dumper crashed: ' + err[-1000:])
    try:
        os.remove(exe)
    except OSError:
        pass
    open(outp, 'w').write(out)
    return out
