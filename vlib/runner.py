"""Obligation runner: compose TU -> goto-cc -> goto-instrument (DFCC) -> cbmc; classify the outcome."""
import os, re, json, time, shlex
from . import ast as A
from .common import VERIF, BUILD, run, sha, ensure_dir, Undecided, write_if_changed, log
from .gen import Extractor
from . import tabdump

CBMC_CHECKS = ['--bounds-check', '--pointer-check', '--pointer-overflow-check', '--signed-overflow-check',
               '--div-by-zero-check', '--undefined-shift-check']
MEM_KB = int(os.environ.get('VERIF_CBMC_MEM_KB', str(14 * 1024 * 1024)))

_extractors = {}
import threading
_xlock = threading.RLock()


def extractor(cfg, src, specs_key, specs):
    k = (cfg, src, specs_key)
    if k not in _extractors:
        _extractors[k] = Extractor(cfg, src, specs)
    return _extractors[k]


class Obl:
    def __init__(self, name, props, grade, harness, roots=(), cfg='default', stop=(), specs=None, entry='harness',
                 enforce=None, replace=(), loop_contracts=False, unwind=None, unwindset=(), defines=(), solver='minisat',
                 timeout=300, tier='quick', extra_flags=(), src=None, includes=(), bound=None, note='', expect_fail=None,
                 no_checks=False, contract_text=None, canary=True, object_bits=None, functions=None, globals=(), bufn=None, replay_fn=None, enums=(), stub=()):
        self.name, self.props, self.grade, self.harness = name, list(props), grade, harness
        self.roots, self.cfg, self.stop = list(roots), cfg, list(stop)
        self.specs = dict(specs or {})
        self.entry, self.enforce, self.replace = entry, enforce, list(replace)
        self.loop_contracts, self.unwind, self.unwindset = loop_contracts, unwind, list(unwindset)
        self.defines, self.solver, self.timeout, self.tier = list(defines), solver, timeout, tier
        self.extra_flags, self.src, self.includes = list(extra_flags), src, list(includes)
        self.bound, self.note, self.expect_fail = bound, note, expect_fail
        self.no_checks = no_checks
        self.contract_text = contract_text
        self.canary = canary
        self.object_bits = object_bits
        self.globals = list(globals)
        self.bufn = bufn
        self.enums = list(enums)
        self.stub = list(stub)   # callees replaced by the executable form of their contract (no DFCC)
        self.replay_fn = replay_fn
        self.functions = functions  # names reported as "under contract" (default: roots)

    @property
    def is_proof(self):
        return not self.grade.startswith('B')


def spec_path(x):
    return x if os.path.isabs(x) else os.path.join(VERIF, 'contracts', x)


def auto_harness(o, ex):
    """harness generated from the signature of the function under contract: every parameter is an explicit
    nondeterministic object (named as in the C++ source, so that traces and native replay agree)"""
    from .cxx2c import parse_fn_params, pass_mode
    from .registry import R
    from .gen import SELF_T
    node = ex.node(o.enforce)
    params, _ = parse_fn_params(node['type']['qualType'])
    pn = [p for p in node.get('inner', []) if p.get('kind') == 'ParmVarDecl']
    lines = ['void harness(void) {', '  HAVOC_BUFS;']
    args = []
    nsv = 0
    if R[o.enforce]['cls']:
        st = R[o.enforce].get('selft') or SELF_T[R[o.enforce]['cls']]
        lines.append('  %s self_obj;' % st)
        args.append('&self_obj')
    for i, (p, pt) in enumerate(zip(pn, params)):
        name = p.get('name') or '__p%d' % i
        mode, ct = pass_mode(pt)
        if ct.klass == 'sv':
            nsv += 1
            lines.append('  ND_SV%s(%s);' % ('' if nsv == 1 else '2', name))
        elif ct.arr:
            lines.append('  %s %s%s;' % (ct.c, name, ct.arr))
        else:
            lines.append('  %s %s; { %s __nd_%s; %s = __nd_%s; }' % (ct.c, name, ct.c, name, name, name))
        args.append(('&' if mode == 'ptr' and not ct.arr else '') + name)
    lines.append('  %s(%s);' % (o.enforce, ', '.join(args)))
    lines.append('  CANARY_POINT;')
    lines.append('}')
    return '\n'.join(lines)


def build_tu(o, canary=False, witness=False):
    with _xlock:
        return _build_tu(o, canary, witness)


def _build_tu(o, canary=False, witness=False):
    specs = {k: (spec_path(v) if isinstance(v, str) else v) for k, v in o.specs.items()}
    ex = extractor(o.cfg, o.src, sha(repr(sorted((k, str(v)) for k, v in specs.items()))), specs)
    needed = list(o.roots) + list(o.stop)
    ex.prefetch([c for c in needed])
    gen_text, order = ex.compose(o.roots, stop=set(o.stop) | set(o.replace) | set(o.stub), havoc=set(o.replace) | set(o.stub), stubbed=set(o.stub)) if o.roots else ('', [])
    tables = tabdump.generate(o.cfg, set(ex.ctx.need_globals) | set(o.globals), set(ex.ctx.need_enums) | set(o.enums), o.src)
    parts = ['/* obligation %s (%s) */' % (o.name, o.cfg)]
    for d in o.defines:
        parts.append('#define ' + d.replace('=', ' ', 1))
    if o.loop_contracts:
        parts.append('#define USE_LOOP_CONTRACTS 1')
    if o.bufn and not witness:
        parts.append('#define BUF_N %d' % o.bufn)
    if canary:
        parts.append('#define CANARY 1')
    bufn = o.bufn
    if witness:
        bufn = o.bufn or 64
        parts.append('#define WITNESS 1')
        parts.append('#define WB_FILL ' + ' '.join('WB_(%d)' % i for i in range(bufn)))
        parts.append('#define BUF_N %d' % bufn)
    parts.append('#include "%s/model/base.h"' % VERIF)
    parts.append('#include "%s/model/simd.h"' % VERIF)
    parts.append('#include "%s/model/ada_types.h"' % VERIF)
    parts.append('const char *g_p; const char *g_q; size_t g_k; size_t g_k2; uint32_t g_max_input_length;\n#ifdef BUF_N\nchar g_buf[BUF_N], g_buf2[BUF_N];\n#endif')
    parts.append('#ifdef CANARY\n#define CANARY_POINT __CPROVER_assert(0, "canary: this point must be reachable")\n#else\n#define CANARY_POINT ((void)0)\n#endif')
    # specification code (spec/*.h) is not the program under verification: no standard checks inside it
    parts.append('#pragma CPROVER check push\n#pragma CPROVER check disable "bounds"\n#pragma CPROVER check disable "pointer"\n'
                 '#pragma CPROVER check disable "pointer-overflow"\n#pragma CPROVER check disable "signed-overflow"\n'
                 '#pragma CPROVER check disable "undefined-shift"\n#pragma CPROVER check disable "div-by-zero"')
    for inc in o.includes:
        if inc.startswith('spec/') and not inc.endswith('.late.h'):
            parts.append('#include "%s/%s"' % (VERIF, inc))
    parts.append('#pragma CPROVER check pop')
    for inc in o.includes:
        if not inc.startswith('spec/'):
            parts.append('#include "%s/%s"' % (VERIF, inc))
    parts.append('/* ---- data dumped by the real compiler ---- */')
    parts.append(tables)
    # spec headers that talk about the real enumerators (E_...) must follow the dumped enumerator definitions
    late = [inc for inc in o.includes if inc.startswith('spec/') and inc.endswith('.late.h')]
    if late:
        parts.append('#pragma CPROVER check push\n#pragma CPROVER check disable "bounds"\n#pragma CPROVER check disable "pointer"\n'
                     '#pragma CPROVER check disable "pointer-overflow"\n#pragma CPROVER check disable "signed-overflow"\n'
                     '#pragma CPROVER check disable "undefined-shift"\n#pragma CPROVER check disable "div-by-zero"')
        for inc in late:
            parts.append('#include "%s/%s"' % (VERIF, inc))
        parts.append('#pragma CPROVER check pop')
    parts.append('/* ---- extracted functions ---- */')
    parts.append(gen_text)
    parts.append('/* ---- harness ---- */')
    if o.harness == 'auto':
        htext = auto_harness(o, ex)
    else:
        hp = os.path.join(VERIF, 'harness', o.harness) if not o.harness.startswith('/') and '\n' not in o.harness else None
        htext = open(hp).read() if hp else o.harness
        htext = re.sub(r'#include "(c\d\d/[^"]+)"', lambda m: open(os.path.join(VERIF, 'harness', m.group(1))).read(), htext)
    parts.append(htext)
    text = '\n'.join(parts) + '\n'
    d = ensure_dir(os.path.join(BUILD, A.tu_hash(o.cfg, o.src) + '_' + o.cfg))
    path = os.path.join(d, re.sub(r'[^A-Za-z0-9_.@-]', '_', o.name) + ('.canary' if canary else '') + ('.witness' if witness else '') + '.c')
    write_if_changed(path, text)
    info = dict(functions=order, ast_hashes={c: ex.done[c]['ast_hash'] for c in order},
                globals=sorted(n for n, _ in ex.ctx.need_globals), globals_q=sorted(ex.ctx.need_globals),
                tables=tables, harness_text=htext,
                spec_lines=(ex.spec_for(o.enforce).get('function', []) if o.enforce else None),
                fn_node=(ex.node(o.enforce) if o.enforce else None), _ex=ex)
    return path, info


RES_RE = re.compile(r'^\[(?P<id>[^\]]+)\] (?:line \d+ )?(?P<desc>.*): (?P<res>SUCCESS|FAILURE|UNKNOWN)$')


def parse_cbmc(out):
    props = []
    for line in out.splitlines():
        m = RES_RE.match(line.strip())
        if m:
            props.append((m.group('id'), m.group('desc'), m.group('res')))
    verdict = None
    if 'VERIFICATION SUCCESSFUL' in out:
        verdict = 'SUCCESSFUL'
    elif 'VERIFICATION FAILED' in out:
        verdict = 'FAILED'
    return props, verdict


def limit_prefix():
    return 'ulimit -s unlimited 2>/dev/null; ulimit -v %d; ' % MEM_KB


def sh(cmd, timeout):
    return run(['bash', '-c', limit_prefix() + cmd], timeout=timeout)


def run_pipeline(o, path, trace=False, canary=False, stop_on_fail=False):
    base = path[:-2]
    a_gb, b_gb = base + '.a.gb', base + '.b.gb'
    t0 = time.time()
    rc, out, err, _ = sh('goto-cc --function %s %s -o %s' % (o.entry, shlex.quote(path), shlex.quote(a_gb)), 300)
    if rc != 0:
        return dict(status='undecided', reason='goto-cc failed: ' + (err + out)[-3000:], secs=time.time() - t0)
    use_dfcc = bool(o.enforce or o.replace or o.loop_contracts)
    if use_dfcc:
        cmd = 'goto-instrument --dfcc %s' % o.entry
        if o.enforce:
            cmd += ' --enforce-contract %s' % o.enforce
        for r in o.replace:
            cmd += ' --replace-call-with-contract %s' % r
        if o.loop_contracts:
            cmd += ' --apply-loop-contracts'
        cmd += ' %s %s' % (shlex.quote(a_gb), shlex.quote(b_gb))
        rc, out, err, _ = sh(cmd, 600)
        if rc != 0 or not os.path.exists(b_gb):
            return dict(status='undecided', reason='goto-instrument failed: ' + (err + out)[-3000:], secs=time.time() - t0)
        gb = b_gb
    else:
        gb = a_gb
    flags = [] if (o.no_checks or canary) else list(CBMC_CHECKS)
    if not use_dfcc:
        # ghost cells / limits are file-scope objects: without DFCC they would be zero-initialised, with this flag every
        # non-const static starts arbitrary (DFCC does the same on its own); const tables keep their values
        flags += ['--nondet-static']
    if canary:
        flags += ['--stop-on-fail']
    if o.unwind is not None:
        flags += ['--unwind', str(o.unwind), '--unwinding-assertions']
    if o.unwindset:
        flags += ['--unwindset', ','.join(o.unwindset)]
    if o.unwindset and o.unwind is None:
        flags += ['--unwinding-assertions']
    if o.solver == 'kissat':
        flags += ['--external-sat-solver', 'kissat']
    elif o.solver == 'cadical':
        flags += ['--sat-solver', 'cadical']
    if o.object_bits:
        flags += ['--object-bits', str(o.object_bits)]
    flags += o.extra_flags
    if trace:
        flags += ['--trace']
    if stop_on_fail:
        flags += ['--stop-on-fail']
    cmd = 'cbmc %s %s' % (shlex.quote(gb), ' '.join(flags))
    rc, out, err, secs = sh(cmd, o.timeout)
    for f in (a_gb, b_gb):
        try:
            os.remove(f)
        except OSError:
            pass
    res = dict(cmd=cmd, secs=time.time() - t0, solver_secs=secs, rc=rc)
    if rc == -9:
        res.update(status='undecided', reason='cbmc timeout after %ds' % o.timeout)
        return res
    if canary:
        # cheap reachability run: no standard checks, stop at the first refuted property; on a tree where the main
        # run passed, the only refutable property is the canary assertion placed after the call
        m = re.search(r'Violated property:.*?\n\s*(.*?)\n', out, re.S)
        res['canary_fired'] = bool(m and 'canary' in m.group(1))
        res['status'] = 'canary'
        if not res['canary_fired']:
            res['reason'] = 'canary not refuted: ' + out[-600:]
        return res
    props, verdict = parse_cbmc(out)
    res['props'] = props
    res['out_tail'] = out[-6000:]
    if trace:
        res['out_full'] = out
    if 'ignoring' in out and ('forall' in out or 'exists' in out):
        res.update(status='undecided', reason='cbmc ignored a quantifier')
        return res
    if verdict is None or not props:
        res.update(status='undecided', reason='cbmc gave no verdict (rc=%s): %s' % (rc, (err + out)[-2000:]))
        return res
    failed = [p for p in props if p[2] == 'FAILURE']
    unknown = [p for p in props if p[2] == 'UNKNOWN']
    res['n_props'] = len(props)
    res['failed'] = failed
    if unknown and not failed:
        # the back end gave up on some properties (resource limit / interrupted incremental run): nothing was refuted
        res.update(status='undecided', reason='cbmc left %d of %d properties UNKNOWN (no property refuted): %s' % (
            len(unknown), len(props), '; '.join(p[0] for p in unknown[:4])))
        return res
    if canary:
        can = [p for p in props if 'canary' in p[1]]
        res['canary_fired'] = any(p[2] == 'FAILURE' for p in can) and bool(can)
        return res
    if verdict == 'SUCCESSFUL' and not failed:
        res['status'] = 'pass'
    else:
        res['status'] = 'fail'
    return res


BOOKKEEPING = ('loop invariant', 'loop_invariant', 'decreases', 'loop assigns', 'is assignable', 'step case', 'base case',
               'unwinding assertion')


def classify_failure(res):
    """violation (post-condition / assertion / safety check refuted) vs. proof no longer closes (bookkeeping only)."""
    real = []
    for pid, desc, r in res.get('failed', []):
        d = desc.lower()
        if any(b in d for b in BOOKKEEPING) or 'loop_' in pid or 'unwind' in pid:
            continue
        real.append((pid, desc, r))
    return real


def check_obligation(o, want_trace=True):
    """Returns result dict with status pass | fail | undecided (+details)."""
    t0 = time.time()
    try:
        path, info = build_tu(o)
    except Undecided as e:
        return dict(name=o.name, status='undecided', reason=str(e), secs=time.time() - t0)
    res = run_pipeline(o, path)
    res['name'] = o.name
    res['tu'] = path
    res['_info'] = info
    res.update({k: v for k, v in info.items() if k in ('functions', 'ast_hashes', 'globals')})
    if res['status'] == 'pass':
        # vacuity guards
        kinds = ' '.join(p[0] + ' ' + p[1] for p in res['props'])
        if o.enforce and 'postcondition' not in kinds.lower() and 'post-condition' not in kinds.lower():
            res.update(status='undecided', reason='vacuity: no postcondition obligation was generated for ' + o.enforce)
            return res
        if o.loop_contracts and 'invariant' not in kinds.lower():
            res.update(status='undecided', reason='vacuity: loop contracts requested but no loop invariant obligation generated')
            return res
        if o.canary:
            try:
                cpath, _ = build_tu(o, canary=True)
                cres = run_pipeline(o, cpath, canary=True)
            except Undecided as e:
                cres = dict(status='undecided', reason=str(e))
            res['canary_secs'] = cres.get('secs')
            if not cres.get('canary_fired'):
                res.update(status='undecided', reason='vacuity: canary assertion after the call was not reached/refuted '
                           '(contradictory precondition or non-returning harness): ' + str(cres.get('reason', ''))[:500])
                return res
    elif res['status'] == 'fail' and any('.no-body.' in p[0] for p in res.get('failed', [])):
        # a callee of the std model has no body in this TU: a gap of the machinery, never a verdict about the code
        res['status'] = 'undecided'
        res['reason'] = 'model function without body: ' + '; '.join(p[0] for p in res['failed'] if '.no-body.' in p[0])[:300]
    elif res['status'] == 'fail':
        real = classify_failure(res)
        res['real_failures'] = real
        if not real:
            res['status'] = 'undecided'
            res['reason'] = 'proof no longer closes (only loop-contract bookkeeping failed): ' + \
                            '; '.join('%s %s' % (p[0], p[1]) for p in res['failed'][:5])
        elif want_trace:
            # counterexample extraction: re-run with every input byte an explicit assignment (bounded buffers)
            try:
                wpath, winfo = build_tu(o, witness=True)
                wo = o
                tres = run_pipeline(o, wpath, trace=True, stop_on_fail=True)
                res['trace'] = tres.get('out_full', '')[-30000000:]
                res['witness_tu'] = wpath
            except Undecided as e:
                res['trace'] = ''
                res['witness_error'] = str(e)
    res['secs_total'] = time.time() - t0
    return res
