"""C++ type (clang desugared qualType string) -> C type of the /verif/model headers.

Closed list: anything not recognised raises Unsupported (=> exit 2, never a guess).
"""
import re


class Unsupported(Exception):
    pass


SCALARS = {
    'bool': '_Bool', 'char': 'char', 'signed char': 'signed char', 'unsigned char': 'unsigned char',
    'short': 'short', 'unsigned short': 'unsigned short', 'int': 'int', 'unsigned int': 'unsigned int',
    'long': 'long', 'unsigned long': 'unsigned long', 'long long': 'long long',
    'unsigned long long': 'unsigned long long', 'void': 'void',
    'char32_t': 'uint32_t', 'char16_t': 'uint16_t', 'char8_t': 'unsigned char',
    'uint8_t': 'uint8_t', 'uint16_t': 'uint16_t', 'uint32_t': 'uint32_t', 'uint64_t': 'uint64_t',
    'int8_t': 'int8_t', 'int16_t': 'int16_t', 'int32_t': 'int32_t', 'int64_t': 'int64_t',
    'size_t': 'size_t', 'std::size_t': 'size_t', 'ptrdiff_t': 'long', 'std::ptrdiff_t': 'long',
    '__mmask16': 'uint16_t', '__mmask64': 'uint64_t', 'unsigned __int128': 'unsigned __int128',
    '__m128i': 'm128i_t', '__m512i': 'm512i_t',
    '__attribute__((__vector_size__(2 * sizeof(long long)))) long long': 'm128i_t',
    '__attribute__((__vector_size__(8 * sizeof(long long)))) long long': 'm512i_t',
    'long long __attribute__((ext_vector_type(2)))': 'm128i_t',
    '__attribute__((__vector_size__(16 * sizeof(char)))) char': 'm128i_t', '__v16qi': 'm128i_t',
    '__attribute__((__vector_size__(64 * sizeof(char)))) char': 'm512i_t', '__v64qi': 'm512i_t',
    '__attribute__((__vector_size__(16 * sizeof(unsigned char)))) unsigned char': 'm128i_t',
    '__attribute__((__vector_size__(64 * sizeof(unsigned char)))) unsigned char': 'm512i_t',
    '_MM_CMPINT_ENUM': 'int',
    'std::errc': 'int',
}

CLASSES = {
    'std::string_view': ('sv_t', 'sv'),
    'std::string': ('str_t', 'str'),
    'std::u32string_view': ('u32sv_t', 'u32sv'),
    'std::u32string': ('u32str_t', 'u32str'),
    'std::basic_string_view<char>': ('sv_t', 'sv'),
    'std::basic_string<char>': ('str_t', 'str'),
    'std::basic_string_view<char32_t>': ('u32sv_t', 'u32sv'),
    'std::basic_string<char32_t>': ('u32str_t', 'u32str'),
    'ada::url_aggregator': ('struct url_aggregator', 'agg'),
    'ada::url': ('struct url', 'url'),
    'ada::url_base': ('struct url_base', 'base'),
    'ada::url_components': ('struct url_components', 'comp'),
    'std::from_chars_result': ('from_chars_result_t', 'fcr'),
    'std::to_chars_result': ('to_chars_result_t', 'tcr'),
    'ada::url_search_params': ('struct url_search_params', 'usp'),
    'std::vector<std::pair<std::string, std::string>>': ('vec_kv_t', 'veckv'),
    'std::vector<ada::url_search_params::key_value_pair>': ('vec_kv_t', 'veckv'),
    'std::vector<std::pair<std::basic_string<char>, std::basic_string<char>>>': ('vec_kv_t', 'veckv'),
    'ada_string': ('ada_string', 'ada_string'),
    'ada_owned_string': ('ada_owned_string', 'ada_owned_string'),
    'ada_url_components': ('ada_url_components', 'ada_url_components'),
}

ENUMS = {'ada::scheme::type': 'int', 'ada::state': 'int', 'ada::url_host_type': 'int', 'ada::errors': 'int',
         'ada::url_pattern_errors': 'int', 'ada::idna::direction': 'int', 'ada::encoding_type': 'int'}

ITER = {
    '__gnu_cxx::__normal_iterator<char *, std::basic_string<char>>': 'char *',
    '__gnu_cxx::__normal_iterator<const char *, std::basic_string<char>>': 'const char *',
    '__gnu_cxx::__normal_iterator<char32_t *, std::basic_string<char32_t>>': 'uint32_t *',
    '__gnu_cxx::__normal_iterator<const char32_t *, std::basic_string<char32_t>>': 'const uint32_t *',
}


def _san(s):
    return re.sub(r'[^A-Za-z0-9]+', '_', s).strip('_')


def strip_cv(q):
    q = q.strip()
    changed = True
    while changed:
        changed = False
        for pre in ('const ', 'volatile '):
            if q.startswith(pre):
                q = q[len(pre):].strip(); changed = True
        for suf in (' const', ' volatile'):
            if q.endswith(suf):
                q = q[:-len(suf)].strip(); changed = True
    return q


def split_targs(s):
    """split 'A<B,C>, D' at top-level commas"""
    out, depth, cur = [], 0, ''
    for ch in s:
        if ch in '<([':
            depth += 1
        elif ch in '>)]':
            depth -= 1
        if ch == ',' and depth == 0:
            out.append(cur.strip()); cur = ''
        else:
            cur += ch
    if cur.strip():
        out.append(cur.strip())
    return out


class CType:
    """cdecl: C type text (without declarator suffix); arr: array suffix like '[8]'; klass: model class tag or None;
    ref: was a C++ reference; const: top-level const of the referee/pointee kept for pointers only."""
    def __init__(self, c, klass=None, arr='', ref=False, ptr=0, elem=None):
        self.c, self.klass, self.arr, self.ref, self.ptr, self.elem = c, klass, arr, ref, ptr, elem

    def __repr__(self):
        return 'CType(%s,%s,%s,ref=%s)' % (self.c, self.klass, self.arr, self.ref)


def map_type(q):
    """q: desugared qualType. Returns CType."""
    q = q.strip()
    ref = False
    if q.endswith('&&'):
        q = q[:-2].strip(); ref = True
    elif q.endswith('&'):
        q = q[:-1].strip(); ref = True
    # function pointers are not supported as values
    # pointers
    m = re.match(r'^(.*?)\s*\*\s*(const)?$', q)
    if m and not q.endswith('>') and '(*)' not in q:
        inner = m.group(1).strip()
        it = map_type(inner)
        isconst = inner.startswith('const ') or inner.endswith(' const')
        c = ('const ' if isconst and not it.c.startswith('const ') else '') + it.c + ' *'
        return CType(c, None, '', ref, it.ptr + 1, it)
    if '(*)' in q or re.search(r'\)\s*(const)?\s*(noexcept)?$', q) and '(' in q and not q.startswith('std::') and 'lambda' not in q:
        raise Unsupported('function type ' + q)
    base = strip_cv(q)
    if base in ('ada::url_search_params::key_value_pair', 'key_value_pair'):
        base = 'std::pair<std::string, std::string>'
    am = re.match(r'^(.*?)\s*\[(\d*)\]$', base)
    if am:
        it = map_type(am.group(1))
        return CType(it.c, it.klass, '[%s]' % am.group(2) + it.arr, ref, 0, it)
    m = re.match(r'^std::basic_string(_view)?<(char|char32_t)>::(value_type|size_type|difference_type)$', base)
    if m:
        base = {'value_type': m.group(2), 'size_type': 'unsigned long', 'difference_type': 'long'}[m.group(3)]
    m = re.match(r'^std::array<(.*), \d+>::value_type$', base)
    if m:
        base = strip_cv(m.group(1))
    if base in SCALARS:
        return CType(SCALARS[base], None, '', ref)
    if base in ENUMS:
        return CType('int', None, '', ref)
    if base in ITER:
        return CType(ITER[base], None, '', ref, 1)
    if base in ('url_aggregator', 'url', 'errors') and 'ada::' + base in CLASSES:
        base = 'ada::' + base     # unqualified spelling inside namespace ada (template instantiations)
    if base in CLASSES:
        c, k = CLASSES[base]
        return CType(c, k, '', ref)
    m = re.match(r'^std::optional<(.*)>$', base)
    if m:
        it = map_type(m.group(1))
        nm = 'opt_' + _san(it.c.replace('struct ', '')).replace('_t', '')
        return CType(nm + '_t', 'opt', '', ref, 0, it)
    m = re.match(r'^std::array<(.*)>$', base)
    if m:
        a = split_targs(m.group(1))
        it = map_type(a[0])
        nm = 'arr_%s_%s_t' % (_san(it.c), a[1].strip())
        return CType(nm, 'arr', '', ref, 0, it)
    m = re.match(r'^std::pair<(.*)>$', base)
    if m:
        a = split_targs(m.group(1))
        its = [map_type(x) for x in a]
        nm = 'pair_%s_%s_t' % (_san(its[0].c), _san(its[1].c))
        return CType(nm, 'pair', '', ref, 0, its)
    if base in ('ada_url', 'ada_url_search_params', 'ada_strings', 'ada_url_search_params_keys_iter',
                'ada_url_search_params_values_iter', 'ada_url_search_params_entries_iter'):
        return CType('void *', None, '', ref, 1, CType('void'))
    m = re.match(r'^ada::result<(.*)>$', base)
    if m:
        base = 'tl::expected<%s, ada::errors>' % m.group(1)
    m = re.match(r'^tl::expected<(.*)>$', base)
    if m:
        a = split_targs(m.group(1))
        it = map_type(a[0])
        nm = 'result_%s_t' % _san(it.c.replace('struct ', ''))
        return CType(nm, 'result', '', ref, 0, it)
    if re.match(r'^std::ranges::(in_in_result|mismatch_result)<.*>$', base):
        return CType('mismatch_result_t', 'mm', '', ref)
    m = re.match(r'^std::initializer_list<(.*)>$', base)
    if m:
        raise Unsupported('initializer_list ' + q)
    if base.startswith('(lambda at'):
        return CType('/*lambda*/int', 'lambda', '', ref)
    if base in ('std::nullopt_t', 'std::identity', 'std::ranges::less'):
        return CType('int', 'tag', '', ref)
    raise Unsupported('type ' + q)
