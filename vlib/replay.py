"""Violations: counterexample extraction from the CBMC trace, native replay against the real code, known findings."""
import json, os, re, time
from .common import VERIF, REPO, run, ensure_dir, sha, BUILD
from . import ast as A

KF_PATH = os.path.join(VERIF, 'known_findings.txt')
ASSIGN_RE = re.compile(r'^\s{2}([A-Za-z_$][\w$.\[\]!@#\->]*)=(.*?)(?: \(([01 ]+)\))?$')
STATE_RE = re.compile(r'^State \d+ file (\S+) function (\S+) line (\d+)')


def parse_trace(trace):
    """-> list of (function, lhs, value) in order; and dict of last values."""
    cur_fn = None
    seq = []
    for line in trace.splitlines():
        m = STATE_RE.match(line)
        if m:
            cur_fn = m.group(2)
            continue
        m = ASSIGN_RE.match(line)
        if m and cur_fn is not None:
            seq.append((cur_fn, m.group(1), m.group(2).strip()))
    last = {}
    for fn, lhs, val in seq:
        last[lhs] = val
        last['%s::%s' % (fn, lhs)] = val
    return seq, last


def to_int(v):
    v = v.strip()
    m = re.match(r"^(-?\d+)(?:u|ul|l|ull|ll|UL|U|L)?$", v)
    if m:
        return int(m.group(1))
    if v in ('TRUE', 'true'):
        return 1
    if v in ('FALSE', 'false'):
        return 0
    m = re.match(r"^'(.*)'$", v)
    if m:
        return None
    return None


def array_values(last, name, n=None):
    """collect name[i]=v assignments and whole-array initialisers `name={ a, b, ... }`"""
    vals = {}
    whole = last.get(name)
    if whole and whole.startswith('{'):
        items = [x.strip() for x in whole.strip('{} ').split(',')]
        for i, x in enumerate(items):
            iv = to_int(x)
            if iv is not None:
                vals[i] = iv
    for k, v in last.items():
        m = re.match(r'^' + re.escape(name) + r'\[(\d+)\w*\]$', k)
        if m:
            iv = to_int(v)
            if iv is not None:
                vals[int(m.group(1))] = iv
    if n is None:
        n = (max(vals) + 1) if vals else 0
    return [vals.get(i, 0) & 0xFF for i in range(n)]


def cxx_bytes(bs):
    return '"' + ''.join('\\x%02x' % (b & 0xFF) for b in bs) + '"'


def native_run(cpp_body, cfg='default', extra_flags=()):
    """compile+run a C++ program whose TU includes /repo/src/ada.cpp; body is the text of main().
    The program prints lines; a line starting with FAIL means the property is violated natively."""
    d = ensure_dir(os.path.join(BUILD, 'replay'))
    key = sha(cpp_body + cfg + A.tu_hash(cfg))[:16]
    src = os.path.join(d, 'r_%s.cpp' % key)
    exe = os.path.join(d, 'r_%s.bin' % key)
    open(src, 'w').write('#include "%s/src/ada.cpp"\n#include <cstdio>\n#include <string>\n#include <string_view>\n'
                         'int main() {\n%s\n  return 0;\n}\n' % (REPO, cpp_body))
    fl = [f for f in A.flags(cfg)]
    rc, out, err, _ = run(['g++'] + fl + ['-fno-access-control', '-w', src, '-o', exe], timeout=600)
    if rc != 0:
        return dict(ok=False, error='native replay did not compile: ' + err[-1500:], src=src)
    rc, out, err, _ = run([exe], timeout=60)
    try:
        os.remove(exe)
    except OSError:
        pass
    return dict(ok=True, rc=rc, out=out[-4000:], err=err[-1000:], src=src,
                reproduced=(any(l.startswith('FAIL') for l in out.splitlines()) or rc not in (0,)))


def extract_witness(o, trace):
    seq, last = parse_trace(trace)
    w = dict(scalars={}, paths={})
    for k, v in last.items():
        if not k.startswith(o.entry + '::'):
            continue
        name = k.split('::', 1)[1]
        # record inputs initialised field by field in witness mode (ND_AGG ...): lvalue paths like u.buffer.d[3], u.components.port
        mp = re.match(r'^(\w+(?:\.\w+)+)(?:\[(\d+)\w*\])?$', name) or re.match(r'^(\w+)\[(\d+)\w*\]$', name)
        if mp and '$' not in name:
            iv = to_int(v)
            if iv is None:
                mm = re.match(r"^'(\\?.)'$", v)
                if mm:
                    ch = mm.group(1)
                    iv = ord(ch) if len(ch) == 1 else {'n': 10, 't': 9, 'r': 13, '0': 0, '\\': 92, "'": 39}.get(ch[-1], ord(ch[-1]))
            if iv is not None:
                w['paths'][mp.group(1) + ('[%s]' % mp.group(2) if mp.group(2) is not None else '')] = iv
        if '[' in name or name.startswith('__nd_') or name.startswith('return_value') or name.startswith('goto_symex') or name.startswith('tmp_'):
            continue
        iv = to_int(v)
        if iv is None:
            m = re.match(r"^'(.)'$", v)
            if m:
                iv = ord(m.group(1))
        if iv is not None:
            w['scalars'][name] = iv
    n = o.bufn or 64
    for nm in ('g_buf', 'g_buf2'):
        vals = array_values(last, nm, n)
        # characters are printed as 'x' by cbmc: collect those too
        for k, v in last.items():
            m = re.match(r'^' + nm + r'\[(\d+)\w*\]$', k)
            if m and to_int(v) is None:
                mm = re.match(r"^'(\\?.)'$", v)
                if mm:
                    ch = mm.group(1)
                    vals[int(m.group(1))] = ord(ch[-1]) if len(ch) == 1 else {'n': 10, 't': 9, 'r': 13, '0': 0, '\\': 92, "'": 39}.get(ch[-1], ord(ch[-1]))
        w[nm] = vals
    return w


def handle_failure(prop, o, r):
    from . import native
    d = ensure_dir(os.path.join(os.environ.get('VERIF_REPLAYS', os.path.join(VERIF, 'replays')), prop))
    path = os.path.join(d, re.sub(r'[^A-Za-z0-9_.@-]', '_', o.name) + '.json')
    w = extract_witness(o, r.get('trace', ''))
    rp = dict(property=prop, obligation=o.name, grade=o.grade, config=o.cfg,
              failed_cbmc_properties=['%s: %s' % (p[0], p[1]) for p in r.get('real_failures', r.get('failed', []))][:20],
              witness=w, cbmc_cmd=r.get('cmd'), tu=r.get('tu'), verifier_output=r.get('out_tail', '')[-3000:],
              reproduced=False, native=None, path=path)
    info = r.get('_info') or {}
    try:
        fn = getattr(o, 'replay_fn', None)
        if fn is not None:
            src = fn(w, o, info)
        else:
            src = native.program(o, info, w, spec_lines=info.get('spec_lines'), fn_node=info.get('fn_node'),
                                 harness_text=info.get('harness_text'))
        if src:
            nat = native_run_src(src, o.cfg if o.cfg in ('avx512', 'ssse3') else 'default')
            rp['native'] = {k: v for k, v in nat.items()}
            rp['reproduced'] = bool(nat.get('reproduced'))
            rp['native_src'] = src
        if not rp['reproduced'] and not o.enforce and not o.stub and not o.replace and info.get('_ex') is not None:
            # second generation: the C harness itself, linked against extern "C" wrappers of the real functions
            from . import shim
            try:
                c_text, cpp_text = shim.build(o, info['_ex'], info, w)
                nat2 = native_run_shim(c_text, cpp_text, o.cfg if o.cfg in ('avx512', 'ssse3') else 'default')
                rp['native_shim'] = {k: v for k, v in nat2.items()}
                if nat2.get('ok'):
                    rp['native'] = rp['native_shim']
                    rp['reproduced'] = bool(nat2.get('reproduced'))
                    rp['native_c'] = c_text; rp['native_cpp'] = cpp_text
            except shim.NoShim as e:
                rp['native_shim'] = dict(ok=False, error='no shim: %s' % e)
    except Exception as e:   # replay is best effort; the violation stands
        import traceback
        rp['native'] = dict(ok=False, error='replay construction failed: %r %s' % (e, traceback.format_exc()[-800:]))
    rp['replay_cmd'] = './check --replay ' + path
    with open(path, 'w') as f:
        json.dump(rp, f, indent=1)
    return rp


def native_run_src(src_text, cfg='default'):
    d = ensure_dir(os.path.join(BUILD, 'replay'))
    key = sha(src_text + cfg)[:16]
    src = os.path.join(d, 'r_%s.cpp' % key)
    exe = os.path.join(d, 'r_%s.bin' % key)
    open(src, 'w').write(src_text)
    fl = [f for f in A.flags(cfg)]
    rc, out, err, _ = run(['g++'] + fl + ['-fno-access-control', '-w', src, '-o', exe], timeout=600)
    if rc != 0:
        return dict(ok=False, error='native replay did not compile: ' + err[-1500:], src=src)
    rc, out, err, _ = run([exe], timeout=60)
    try:
        os.remove(exe)
    except OSError:
        pass
    return dict(ok=True, rc=rc, out=out[-4000:], err=err[-1000:], src=src,
                reproduced=any(l.startswith('FAIL') for l in out.splitlines()))


def native_run_shim(c_text, cpp_text, cfg='default'):
    d = ensure_dir(os.path.join(BUILD, 'replay'))
    key = sha(c_text + cpp_text + cfg)[:16]
    csrc, xsrc = os.path.join(d, 'r_%s.c' % key), os.path.join(d, 'r_%s_shim.cpp' % key)
    cobj, xobj, exe = csrc[:-2] + '.o', xsrc[:-4] + '.o', os.path.join(d, 'r_%s.bin' % key)
    open(csrc, 'w').write(c_text); open(xsrc, 'w').write(cpp_text)
    fl = [f for f in A.flags(cfg)]
    rc, out, err, _ = run(['g++'] + fl + ['-fno-access-control', '-w', '-c', xsrc, '-o', xobj], timeout=900)
    if rc != 0:
        return dict(ok=False, error='shim did not compile: ' + err[-1500:], src=xsrc)
    rc, out, err, _ = run(['gcc', '-std=gnu11', '-O1', '-w', '-c', csrc, '-o', cobj], timeout=300)
    if rc != 0:
        return dict(ok=False, error='native harness did not compile: ' + err[-1500:], src=csrc)
    rc, out, err, _ = run(['g++', cobj, xobj, '-o', exe], timeout=300)
    if rc != 0:
        return dict(ok=False, error='native replay did not link: ' + err[-1500:], src=csrc)
    rc, out, err, _ = run([exe], timeout=60)
    for f in (exe, cobj, xobj):
        try:
            os.remove(f)
        except OSError:
            pass
    return dict(ok=True, rc=rc, out=out[-4000:], err=err[-1000:], src=csrc, shim=xsrc,
                reproduced=any(l.startswith('FAIL') for l in out.splitlines()))


def replay_file(path):
    rp = json.load(open(path))
    print('obligation', rp['obligation'], 'property', rp['property'])
    print('failed:', *rp.get('failed_cbmc_properties', []), sep='\n  ')
    print('witness:', rp.get('witness'))
    if rp.get('native_c'):
        nat = native_run_shim(rp['native_c'], rp['native_cpp'], rp.get('config') if rp.get('config') in ('avx512', 'ssse3') else 'default')
        print(nat.get('out', ''), nat.get('error', ''))
        return 1 if nat.get('reproduced') else 0
    if rp.get('native_src'):
        nat = native_run_src(rp['native_src'], rp.get('config') if rp.get('config') in ('avx512', 'ssse3') else 'default')
        print(nat.get('out', ''), nat.get('error', ''))
        return 1 if nat.get('reproduced') else 0
    print('no native replay available for this obligation (no-failing-input-found); verifier output:')
    print(rp.get('verifier_output', '')[-1500:])
    return 1


def load_known_findings():
    """known_findings.txt lines:  finding: property=<id> obligation=<name> witness=<regex or *> :: <text>
                                  fixed: property=<id> <commit> <what failed>     (suppresses nothing)"""
    out = []
    if not os.path.exists(KF_PATH):
        return out
    for line in open(KF_PATH):
        line = line.strip()
        if not line.startswith('finding:'):
            continue
        m = re.match(r'^finding:\s+property=(\S+)\s+obligation=(\S+)\s+witness=(.*?)\s+::\s+(.*)$', line)
        if m:
            out.append(dict(prop=m.group(1), obligation=m.group(2), witness=m.group(3), text=m.group(4)))
    return out


def match_known(known, prop, o, rp):
    for k in known:
        if k['prop'] != prop or k['obligation'] != o.name:
            continue
        if k['witness'] == '*':
            return k
        w = json.dumps(rp.get('witness')) if rp.get('witness') is not None else ''
        if re.search(k['witness'], w):
            return k
    return None
