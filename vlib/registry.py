"""Registry of the functions of ada-url/ada that can be extracted (cname -> where to find the definition).

Each entry: cname: dict(filt=<-ast-dump-filter string>, mangled=<regex on the Itanium mangled name, optional>,
cls=<model class tag for member functions: 'agg' | 'url' | 'comp' | None>, cfg-specific entries use 'only'.
The unqualified C++ name is the last component of filt.
"""

R = {}


def F(cname, filt, mangled=None, cls=None, selft=None, name=None, targs=None, tdefault=False):
    R[cname] = dict(filt=filt, mangled=mangled, cls=cls, selft=selft,
                    name=name or filt.split('::')[-1], targs=targs, tdefault=tdefault)


SV = 'St17basic_string_viewIcSt11char_traitsIcEE'
STR = 'NSt7__cxx1112basic_stringIcSt11char_traitsIcESaIcEEE'

# ---- character sets / unicode byte classes
F('bit_at', 'ada::character_sets::bit_at')
F('is_tabs_or_newline', 'ada::unicode::is_tabs_or_newline')
F('broadcast', 'ada::unicode::broadcast')
F('to_lower_ascii', 'ada::unicode::to_lower_ascii')
F('has_tabs_or_newline', 'ada::unicode::has_tabs_or_newline')
F('is_forbidden_host_code_point', 'ada::unicode::is_forbidden_host_code_point')
F('is_forbidden_domain_code_point', 'ada::unicode::is_forbidden_domain_code_point')
F('contains_forbidden_domain_code_point', 'ada::unicode::contains_forbidden_domain_code_point',
  mangled=r'_ZN3ada7unicode36contains_forbidden_domain_code_pointEPKcm')
F('contains_forbidden_domain_code_point_or_upper', 'ada::unicode::contains_forbidden_domain_code_point_or_upper')
F('is_alnum_plus', 'ada::unicode::is_alnum_plus')
F('is_ascii_hex_digit', 'ada::unicode::is_ascii_hex_digit')
F('is_ascii_digit', 'ada::unicode::is_ascii_digit')
F('unicode_is_ascii', 'ada::unicode::is_ascii', mangled=r'_ZN3ada7unicode8is_asciiEDi')
F('is_c0_control_or_space', 'ada::unicode::is_c0_control_or_space')
F('is_ascii_tab_or_newline', 'ada::unicode::is_ascii_tab_or_newline')
F('is_double_dot_path_segment', 'ada::unicode::is_double_dot_path_segment')
F('is_single_dot_path_segment', 'ada::unicode::is_single_dot_path_segment')
F('is_lowercase_hex', 'ada::unicode::is_lowercase_hex')
F('convert_hex_to_binary', 'ada::unicode::convert_hex_to_binary')
F('percent_decode', 'ada::unicode::percent_decode')
F('form_urlencoded_decode', 'ada::unicode::form_urlencoded_decode')
F('percent_encode', 'ada::unicode::percent_encode', mangled=r'_ZN3ada7unicode14percent_encodeB5cxx11E%sPKh' % SV)
F('percent_encode_idx', 'ada::unicode::percent_encode', mangled=r'_ZN3ada7unicode14percent_encodeB5cxx11E%sPKhm' % SV)
F('percent_encode_append', 'ada::unicode::percent_encode', mangled=r'_ZN3ada7unicode14percent_encodeILb1EEEb.*', targs='true')
F('percent_encode_overwrite', 'ada::unicode::percent_encode', mangled=r'_ZN3ada7unicode14percent_encodeILb0EEEb.*', targs='false')
F('percent_encode_index', 'ada::unicode::percent_encode_index')
F('unicode_to_ascii', 'ada::unicode::to_ascii')

# ---- checkers
F('has_hex_prefix_unsafe', 'ada::checkers::has_hex_prefix_unsafe')
F('has_hex_prefix', 'ada::checkers::has_hex_prefix', mangled=r'_ZN3ada8checkers14has_hex_prefixE.*')
F('is_digit', 'ada::checkers::is_digit')
F('to_lower', 'ada::checkers::to_lower')
F('is_alpha', 'ada::checkers::is_alpha')
F('is_windows_drive_letter', 'ada::checkers::is_windows_drive_letter')
F('is_normalized_windows_drive_letter', 'ada::checkers::is_normalized_windows_drive_letter')
F('parse_ipv4_decimal_scalar', 'ada::checkers::detail::parse_ipv4_decimal_scalar')
F('parse_ipv4_decimal_trusted', 'ada::checkers::detail::parse_ipv4_decimal_trusted')
F('try_parse_ipv4_avx512', 'ada::checkers::detail::try_parse_ipv4_avx512')
F('try_parse_ipv4_fast', 'ada::checkers::try_parse_ipv4_fast')
F('is_ipv4', 'ada::checkers::is_ipv4')
F('path_signature', 'ada::checkers::path_signature')
F('verify_dns_length', 'ada::checkers::verify_dns_length')

# ---- ip helpers / serializers
F('parse_ipv4_number', 'ada::detail::parse_ipv4_number')
F('parse_hex_piece', 'ada::detail::parse_hex_piece')
F('ipv6_structure_plausible', 'ada::detail::ipv6_structure_plausible')
F('write_u8', 'write_u8')
F('write_hex_u16', 'write_hex_u16')
F('find_longest_sequence_of_ipv6_pieces', 'ada::serializers::find_longest_sequence_of_ipv6_pieces')
F('serializers_ipv6', 'ada::serializers::ipv6')
F('serializers_ipv4', 'ada::serializers::ipv4')

# ---- scheme
F('scheme_is_special', 'ada::scheme::is_special')
F('scheme_get_special_port_sv', 'ada::scheme::get_special_port', mangled=r'_ZN3ada6scheme16get_special_portE%s' % SV)
F('scheme_get_special_port_type', 'ada::scheme::get_special_port', mangled=r'_ZN3ada6scheme16get_special_portENS0_4typeE')
F('get_scheme_type', 'ada::scheme::get_scheme_type')
F('branchless_load5', 'ada::scheme::details::branchless_load5')

# ---- helpers
F('prune_hash', 'ada::helpers::prune_hash')
F('shorten_path_str', 'ada::helpers::shorten_path', mangled=r'_ZN3ada7helpers12shorten_pathERNSt7__cxx11.*')
F('shorten_path_sv', 'ada::helpers::shorten_path', mangled=r'_ZN3ada7helpers12shorten_pathERSt17basic_string_view.*')
F('remove_ascii_tab_or_newline', 'ada::helpers::remove_ascii_tab_or_newline')
F('substring1', 'ada::helpers::substring', mangled=r'_ZN3ada7helpers9substringE%sm' % SV)
F('substring2', 'ada::helpers::substring', mangled=r'_ZN3ada7helpers9substringERKNSt7__cxx11.*mm')
F('substring3', 'ada::helpers::substring', mangled=r'_ZN3ada7helpers9substringE%smm' % SV)
F('helpers_resize', 'ada::helpers::resize')
F('trailing_zeroes', 'ada::helpers::trailing_zeroes')
F('leading_zeroes', 'ada::helpers::leading_zeroes')
F('fast_digit_count', 'ada::helpers::fast_digit_count')
F('find_next_host_delimiter_special', 'ada::helpers::find_next_host_delimiter_special')
F('find_next_host_delimiter', 'ada::helpers::find_next_host_delimiter', mangled=r'_ZN3ada7helpers24find_next_host_delimiterE.*')
F('get_host_delimiter_location', 'ada::helpers::get_host_delimiter_location')
F('trim_c0_whitespace', 'ada::helpers::trim_c0_whitespace')
F('parse_prepared_path', 'ada::helpers::parse_prepared_path')
F('overlaps', 'ada::helpers::overlaps')
F('find_authority_delimiter_special', 'ada::helpers::find_authority_delimiter_special')
F('find_authority_delimiter', 'ada::helpers::find_authority_delimiter', mangled=r'_ZN3ada7helpers24find_authority_delimiterE.*')

# ---- implementation
F('try_can_parse_absolute_fast', 'try_can_parse_absolute_fast')
F('get_max_input_length', 'ada::get_max_input_length')
F('can_parse', 'ada::can_parse')

# ---- url_base / url_components / url_aggregator members
A = 'ada::url_aggregator::'
F('base_is_special', 'ada::url_base::is_special', cls='base', selft='struct url_base')
F('base_get_special_port', 'ada::url_base::get_special_port', cls='base', selft='struct url_base')
F('base_scheme_default_port', 'ada::url_base::scheme_default_port', cls='base', selft='struct url_base')
F('check_offset_consistency', 'ada::url_components::check_offset_consistency', cls='comp')
for _m in ['add_authority_slashes_if_needed', 'append_base_password', 'append_base_pathname', 'append_base_username',
           'cannot_have_credentials_or_port', 'clear_hash', 'clear_hostname', 'clear_password', 'clear_pathname', 'clear_port',
           'clear_search', 'consume_prepared_path', 'copy_scheme', 'delete_dash_dot', 'get_components', 'get_hash', 'get_host',
           'get_hostname', 'get_href', 'get_href_size', 'get_password', 'get_pathname', 'get_pathname_length', 'get_port',
           'get_protocol', 'get_search', 'get_username', 'has_authority', 'has_credentials', 'has_dash_dot', 'has_empty_hostname',
           'has_hash', 'has_hostname', 'has_non_empty_password', 'has_non_empty_username', 'has_password', 'has_port', 'has_search',
           'has_valid_domain', 'is_at_path', 'parse_host', 'parse_ipv4', 'parse_ipv6', 'parse_opaque_host', 'parse_path',
           'replace_and_resize', 'reserve', 'retrieve_base_port', 'set_hash', 'set_host', 'set_hostname', 'set_href', 'set_password',
           'set_pathname', 'set_port', 'set_protocol', 'set_protocol_as_file', 'set_scheme', 'set_scheme_from_view_with_colon',
           'set_search', 'set_username', 'update_base_authority', 'update_base_hostname', 'update_base_password',
           'update_base_pathname', 'update_base_port', 'update_base_username', 'update_host_to_base_host',
           'update_unencoded_base_hash', 'validate']:
    F('agg_' + _m, A + _m, cls='agg', mangled=r'_ZNK?3ada14url_aggregator\d+%s(B5cxx11)?E.*' % _m)
F('agg_update_base_search', A + 'update_base_search', cls='agg', mangled=r'_ZN3ada14url_aggregator18update_base_searchESt17basic_string_viewIcSt11char_traitsIcEE')
F('agg_update_base_search_set', A + 'update_base_search', cls='agg', mangled=r'_ZN3ada14url_aggregator18update_base_searchESt17basic_string_viewIcSt11char_traitsIcEEPKh')
F('agg_parse_port', A + 'parse_port', cls='agg', mangled=r'_ZN3ada14url_aggregator10parse_portESt17basic_string_viewIcSt11char_traitsIcEEb')
F('agg_parse_scheme_with_colon_0', A + 'parse_scheme_with_colon', cls='agg', mangled=r'_ZN3ada14url_aggregator23parse_scheme_with_colonILb0EEE.*', targs='false', tdefault=True)
F('agg_parse_scheme_with_colon_1', A + 'parse_scheme_with_colon', cls='agg', mangled=r'_ZN3ada14url_aggregator23parse_scheme_with_colonILb1EEE.*', targs='true')
F('agg_set_host_or_hostname_0', A + 'set_host_or_hostname', cls='agg', mangled=r'_ZN3ada14url_aggregator20set_host_or_hostnameILb0EEE.*', targs='false')
F('agg_set_host_or_hostname_1', A + 'set_host_or_hostname', cls='agg', mangled=r'_ZN3ada14url_aggregator20set_host_or_hostnameILb1EEE.*', targs='true')
F('apply_shifted_non_scheme_offsets', 'apply_shifted_non_scheme_offsets')
F('strip_trailing_spaces_from_opaque_path_agg', 'ada::helpers::strip_trailing_spaces_from_opaque_path', mangled=r'.*strip_trailing_spaces_from_opaque_pathINS_14url_aggregatorEE.*')
F('agg_parse_port1', A + 'parse_port', cls='agg', mangled=r'_ZN3ada14url_aggregator10parse_portESt17basic_string_viewIcSt11char_traitsIcEE')
F('idna_to_ascii', 'ada::idna::to_ascii', mangled=r'_ZN3ada4idna8to_asciiB5cxx11E.*')
F('idna_to_ascii_out', 'ada::idna::to_ascii', mangled=r'_ZN3ada4idna8to_asciiESt17.*')
F('idna_to_unicode', 'ada::idna::to_unicode', mangled=r'_ZN3ada4idna10to_unicodeB5cxx11E.*')
F('parse_url_impl_agg_1', 'ada::parser::parse_url_impl', mangled=r'_ZN3ada6parser14parse_url_implINS_14url_aggregatorELb1EEE.*', targs='ada::url_aggregator, true')
F('parse_url_impl_agg_0', 'ada::parser::parse_url_impl', mangled=r'_ZN3ada6parser14parse_url_implINS_14url_aggregatorELb0EEE.*', targs='ada::url_aggregator, false')
F('parse_url_impl_url_1', 'ada::parser::parse_url_impl', mangled=r'_ZN3ada6parser14parse_url_implINS_3urlELb1EEE.*')
F('try_parse_simple_absolute_agg', 'ada::parser::try_parse_simple_absolute', mangled=r'_ZN3ada6parser25try_parse_simple_absoluteINS_14url_aggregatorEEE.*')
F('try_parse_simple_absolute_url', 'ada::parser::try_parse_simple_absolute', mangled=r'_ZN3ada6parser25try_parse_simple_absoluteINS_3urlEEE.*')

# ---- C API (src/ada_c.cpp): the url part
F('get_instance', 'get_instance', mangled=r'_Z12get_instancePv')
for _w in ['ada_is_valid', 'ada_get_href', 'ada_get_username', 'ada_get_password', 'ada_get_port', 'ada_get_hash', 'ada_get_host', 'ada_get_hostname',
           'ada_get_pathname', 'ada_get_search', 'ada_get_protocol', 'ada_get_host_type', 'ada_get_scheme_type', 'ada_set_href', 'ada_set_host',
           'ada_set_hostname', 'ada_set_protocol', 'ada_set_username', 'ada_set_password', 'ada_set_port', 'ada_set_pathname', 'ada_set_search',
           'ada_set_hash', 'ada_clear_port', 'ada_clear_hash', 'ada_clear_search', 'ada_has_credentials', 'ada_has_empty_hostname', 'ada_has_hostname',
           'ada_has_non_empty_username', 'ada_has_non_empty_password', 'ada_has_port', 'ada_has_password', 'ada_has_hash', 'ada_has_search',
           'ada_get_components', 'ada_string_create', 'ada_copy', 'ada_free', 'ada_get_origin', 'ada_free_owned_string', 'ada_parse', 'ada_parse_with_base',
           'ada_can_parse', 'ada_can_parse_with_base']:
    F(_w, _w)
F('parse_agg', 'ada::parse', mangled=r'_ZN3ada5parseINS_14url_aggregatorEEE.*', targs='ada::url_aggregator')
F('parse_url', 'ada::parse', mangled=r'_ZN3ada5parseINS_3urlEEE.*', targs='ada::url')
F('agg_get_origin', A + 'get_origin', cls='agg', mangled=r'_ZNK3ada14url_aggregator10get_originB5cxx11Ev')

# ---- ada::url members (twins of the aggregator's)
U = 'ada::url::'
for _m in ['parse_ipv4', 'parse_ipv6', 'parse_opaque_host', 'parse_host', 'parse_scheme', 'get_href_size', 'get_components', 'set_port', 'set_username',
           'set_password', 'set_hash', 'set_search', 'set_pathname', 'set_protocol', 'cannot_have_credentials_or_port', 'has_credentials', 'get_pathname', 'get_href',
           'get_host', 'get_hostname', 'get_port', 'get_search', 'get_hash', 'get_username', 'get_password', 'get_protocol', 'update_base_port', 'clear_port',
           'update_base_hostname', 'has_empty_hostname', 'has_hostname', 'has_valid_domain', 'set_scheme', 'copy_scheme', 'set_protocol_as_file', 'has_port']:
    F('url_' + _m, U + _m, cls='url', mangled=r'_ZNK?3ada3url\d+%s(B5cxx11)?E.*' % _m)
F('url_parse_scheme_1', U + 'parse_scheme', cls='url', mangled=r'_ZN3ada3url12parse_schemeILb1EEE.*', targs='true')
F('url_parse_scheme_0', U + 'parse_scheme', cls='url', mangled=r'_ZN3ada3url12parse_schemeILb0EEE.*', targs='false', tdefault=True)
F('url_set_host_or_hostname_0', U + 'set_host_or_hostname', cls='url', mangled=r'_ZN3ada3url20set_host_or_hostnameILb0EEE.*', targs='false')
F('url_set_host_or_hostname_1', U + 'set_host_or_hostname', cls='url', mangled=r'_ZN3ada3url20set_host_or_hostnameILb1EEE.*', targs='true')
F('url_parse_port', U + 'parse_port', cls='url', mangled=r'_ZN3ada3url10parse_portESt17basic_string_viewIcSt11char_traitsIcEEb')
F('url_parse_port1', U + 'parse_port', cls='url', mangled=r'_ZN3ada3url10parse_portESt17basic_string_viewIcSt11char_traitsIcEE')
F('usp_sort', 'ada::url_search_params::sort', cls='usp')
for _m in ['reset', 'initialize', 'append', 'size']:
    F('usp_' + _m, 'ada::url_search_params::' + _m, cls='usp')
F('idna_ascii_map', 'ada::idna::ascii_map')
F('idna_is_ascii_sv', 'ada::idna::is_ascii', mangled=r'_ZN3ada4idna8is_asciiESt17basic_string_viewIcSt11char_traitsIcEE')
F('idna_is_ascii_u32', 'ada::idna::is_ascii', mangled=r'_ZN3ada4idna8is_asciiESt17basic_string_viewIDiSt11char_traitsIDiEE')
F('idna_from_ascii_to_ascii', 'ada::idna::from_ascii_to_ascii')
F('idna_char_to_digit_value', 'ada::idna::char_to_digit_value')
F('idna_digit_to_char', 'ada::idna::digit_to_char')
F('idna_adapt', 'ada::idna::adapt')
F('idna_utf8_to_utf32', 'ada::idna::utf8_to_utf32')
F('idna_utf32_to_utf8', 'ada::idna::utf32_to_utf8')
F('idna_utf8_length_from_utf32', 'ada::idna::utf8_length_from_utf32')
F('idna_utf32_length_from_utf8', 'ada::idna::utf32_length_from_utf8')
F('idna_is_forbidden_domain_code_point', 'ada::idna::is_forbidden_domain_code_point')
F('idna_contains_forbidden_domain_code_point', 'ada::idna::contains_forbidden_domain_code_point')
F('idna_map_out', 'ada::idna::map', mangled=r'_ZN3ada4idna3mapESt17basic_string_viewIDiSt11char_traitsIDiEERNSt7__cxx1112basic_stringIDiS3_SaIDiEEE')
F('idna_normalize', 'ada::idna::normalize')
F('idna_is_already_nfc', 'ada::idna::is_already_nfc')
F('idna_is_label_valid', 'ada::idna::is_label_valid')
F('idna_utf32_to_punycode', 'ada::idna::utf32_to_punycode')
F('idna_punycode_to_utf32', 'ada::idna::punycode_to_utf32')
F('idna_verify_punycode', 'ada::idna::verify_punycode')
F('idna_append_ascii_label', 'ada::idna::append_ascii_label')
F('idna_is_ace_prefix', 'ada::idna::is_ace_prefix')

# ---- URLPattern canonicalisers (self-contained ones)
for _c in ['canonicalize_protocol', 'canonicalize_username', 'canonicalize_password', 'canonicalize_search', 'canonicalize_hash', 'canonicalize_port', 'canonicalize_hostname', 'canonicalize_pathname', 'canonicalize_opaque_pathname', 'canonicalize_ipv6_hostname']:
    F(_c, 'ada::url_pattern_helpers::' + _c)
