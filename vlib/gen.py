"""Extractor: registry + AST + cxx2c -> generated C text per function, with transitive callees."""
import os, re, json
from concurrent.futures import ThreadPoolExecutor
from . import ast as A
from .common import VERIF, Undecided, sha, ensure_dir, NCPU, log
from .registry import R
from .cxx2c import Tr, Ctx, norm_sig, parse_spec
from .ctypes_map import Unsupported

SELF_T = {'agg': 'struct url_aggregator', 'url': 'struct url', 'comp': 'struct url_components',
          'usp': 'struct url_search_params'}


def _split_top(s):
    out, depth, cur = [], 0, ''
    for ch in s:
        if ch in '([':
            depth += 1
        elif ch in ')]':
            depth -= 1
        if ch == ',' and depth == 0:
            out.append(cur); cur = ''
        else:
            cur += ch
    out.append(cur)
    return out


class Extractor:
    def __init__(self, cfg='default', src=None, specs=None):
        self.cfg, self.src = cfg, src
        self.nodes = {}       # cname -> AST node
        self.done = {}        # cname -> dict(text, proto, callees, lambdas, instances)
        self.specs = specs or {}   # cname -> spec path (or dict)
        self.ctx = Ctx(self.resolve_free, self.resolve_method, devchecks=(cfg == 'devchecks'))
        self.ctx.extractor = self
        self.by_name = {}
        for c, r in R.items():
            self.by_name.setdefault(r['name'], []).append(c)

    def prefetch(self, cnames):
        filts = sorted(set(R[c]['filt'] for c in cnames if c in R))
        with ThreadPoolExecutor(max_workers=NCPU) as ex:
            list(ex.map(lambda f: A.dump(self.cfg, f, self.src), filts))

    def node(self, cname):
        if cname not in self.nodes:
            r = R.get(cname)
            if r is None:
                raise Undecided('extraction: %s is not in the registry' % cname)
            try:
                self.nodes[cname] = A.find_function(self.cfg, r['filt'], mangled=r['mangled'], src=self.src)
            except Undecided:
                raise
        return self.nodes[cname]

    def try_node(self, cname):
        try:
            return self.node(cname)
        except Undecided:
            return None

    def pick(self, hits, hint):
        """several registry entries match (template instantiations with identical signatures): use the explicit
        template arguments written at the call site, or the entry marked as the default instantiation"""
        if len(hits) <= 1:
            return hits
        if hint:
            sel = [h for h in hits if R[h[0] if isinstance(h, tuple) else h].get('targs') == hint]
        else:
            sel = [h for h in hits if R[h[0] if isinstance(h, tuple) else h].get('tdefault')]
        return sel if len(sel) == 1 else hits

    def pick_ns(self, hits, qual):
        """same name and signature in two namespaces (ada::unicode:: / ada::idna::): use the qualifier written at the call
        site, else the namespace of the calling function"""
        if len(hits) <= 1 or not qual:
            return hits
        q, caller = qual
        if q:
            sel = [h for h in hits if (R[h]['filt'].rsplit('::', 1)[0] + '::').endswith(q)]
            if len(sel) == 1:
                return sel
        cr = R.get(caller)
        if cr:
            ns = cr['filt'].rsplit('::', 1)[0]
            # members: strip the class name
            sel = [h for h in hits if R[h]['filt'].rsplit('::', 1)[0] == ns or ns.startswith(R[h]['filt'].rsplit('::', 1)[0] + '::')]
            if len(sel) == 1:
                return sel
        return hits

    def resolve_free(self, name, sig, hint=None, qual=None):
        cands = self.by_name.get(name, [])
        want = norm_sig(sig)
        hits = []
        for c in cands:
            if R[c]['cls']:
                continue
            n = self.try_node(c)
            if n is not None and norm_sig(n['type']['qualType']) == want:
                hits.append(c)
        hits = self.pick(hits, hint)
        hits = self.pick_ns(hits, qual)
        if len(hits) == 1:
            return hits[0]
        return None

    def resolve_method(self, klass, name, nargs, hint=None):
        hits = []
        for c in self.by_name.get(name, []):
            if R[c]['cls'] != klass:
                continue
            n = self.try_node(c)
            if n is None:
                continue
            np = len([p for p in n.get('inner', []) if p.get('kind') == 'ParmVarDecl'])
            if np == nargs:
                hits.append((c, n['type']['qualType']))
        hits = self.pick(hits, hint)
        if len(hits) == 1:
            return hits[0]
        return None

    def spec_for(self, cname):
        s = self.specs.get(cname)
        if s is None:
            return {}
        if isinstance(s, dict):
            return s
        return parse_spec(s)

    def get(self, cname):
        if cname in self.done:
            return self.done[cname]
        node = self.node(cname)
        saved_callees = self.ctx.callees
        self.ctx.callees = set()
        tr = Tr(self.ctx, cname, node, self.spec_for(cname))
        tr.instances = []
        if R[cname]['cls']:
            tr.self_ctype = R[cname].get('selft') or SELF_T[R[cname]['cls']]
        try:
            text = tr.function()
        except Unsupported as e:
            raise Undecided('extraction of %s aborted: %s' % (cname, e))
        except (KeyError, IndexError, TypeError) as e:
            import traceback
            raise Undecided('extraction of %s crashed: %s\n%s' % (cname, e, traceback.format_exc()[-1500:]))
        nloops = tr.loopn
        for k in tr.spec:
            m = re.match(r'loop (\d+)$', k)
            if m and int(m.group(1)) >= nloops:
                raise Undecided('spec of %s names loop %s but the function has %d loops' % (cname, m.group(1), nloops))
        d = dict(text=text, proto=tr.proto, callees=sorted(self.ctx.callees), lambdas=list(tr.lambda_defs),
                 instances=list(tr.instances), nloops=nloops,
                 ast_hash=sha(json.dumps(node, sort_keys=True))[:16])
        self.ctx.callees = saved_callees
        self.done[cname] = d
        return d

    def closure(self, roots, stop=()):
        """Translate roots and everything they call (except `stop`, for which only prototypes are needed).
        Returns ordered list of cnames (callees first)."""
        order, seen = [], set()

        def visit(c):
            if c in seen:
                return
            seen.add(c)
            if c in stop:
                return
            d = self.get(c)
            for x in d['callees']:
                visit(x)
            order.append(c)
        for r in roots:
            visit(r)
        return order, seen

    def havoc_contract(self, c, tr, node):
        """weakest useful contract for a callee that is abstracted in a skeleton obligation: it may write anything
        reachable through its non-const pointer parameters (editors: only buffer and components), returns anything;
        the only promise is the type invariant of the string model (n <= STR_CAP, NUL-terminated)."""
        from .cxx2c import parse_fn_params, pass_mode
        sig = node['type']['qualType']
        params, ret = parse_fn_params(sig)
        pn = [p for p in node.get('inner', []) if p.get('kind') == 'ParmVarDecl']
        targets, ens = [], []
        is_const_method = bool(re.search(r'\)\s*const', re.sub(r'\[\[[^\]]*\]\]', '', sig)))
        if R[c]['cls'] == 'agg' and not is_const_method:
            editor = re.match(r'agg_(update_|append_|clear_|add_|delete_|replace_|set_scheme|set_protocol_as_file|copy_scheme|consume_|parse_path)', c)
            if editor and not re.match(r'agg_(set_scheme|set_protocol_as_file|copy_scheme)', c):
                targets += ['self->buffer', 'self->components']
            else:
                targets += ['__CPROVER_object_whole(self)']
            ens.append('self->buffer.n <= STR_CAP && self->buffer.d[self->buffer.n] == 0')
        elif R[c]['cls'] == 'url' and not is_const_method:
            targets += ['__CPROVER_object_whole(self)']
        for p, pt in zip(pn, params):
            mode, ct = pass_mode(pt)
            base = pt.strip()
            if mode == 'ptr' and not base.startswith('const '):
                targets.append('__CPROVER_object_whole(%s)' % p['name'])
                if ct.klass == 'str':
                    ens.append('%s->n <= STR_CAP && %s->d[%s->n] == 0' % (p['name'], p['name'], p['name']))
        from .ctypes_map import map_type
        try:
            rct = map_type(ret) if ret else None
        except Exception:
            rct = None
        if rct is not None and rct.klass == 'str':
            ens.append('__CPROVER_return_value.n <= STR_CAP && __CPROVER_return_value.d[__CPROVER_return_value.n] == 0')
        lines = ['__CPROVER_assigns(%s)' % ', '.join(targets)]
        for e in ens or ['1']:
            lines.append('__CPROVER_ensures(%s)' % e)
        return lines

    def stub_from_contract(self, sig, spec_lines):
        """executable form of a function contract, used instead of goto-instrument's replace-call-with-contract where the DFCC
        instrumentation is too heavy: assert(requires); havoc(assigns targets); assume(ensures); return arbitrary value."""
        from .native import clause_bodies
        req = clause_bodies(spec_lines, 'requires')
        ens = clause_bodies(spec_lines, 'ensures')
        asg = clause_bodies(spec_lines, 'assigns')
        m = re.match(r'^(.*?)\s*(\w+)\((.*)\)$', sig.replace('\n', ' '), re.S)
        rtype, fname = m.group(1).strip(), m.group(2)
        body = []
        for r in req:
            if 'is_fresh' in r or 'SV_VALID' in r:
                continue      # memory-shape preconditions are established by construction at the call sites
            body.append('  __CPROVER_assert(%s, "precondition of %s (skeleton contract)");' % (r, fname))
        olds = []
        def old_sub(e):
            out = ''; i = 0
            while True:
                j = e.find('__CPROVER_old(', i)
                if j < 0:
                    return out + e[i:]
                k = j + len('__CPROVER_old('); d = 1
                while d:
                    d += e[k] == '('; d -= e[k] == ')'; k += 1
                inner = e[j + len('__CPROVER_old('):k - 1]
                name = '__old%d' % len(olds)
                olds.append((name, inner))
                out += e[i:j] + name; i = k
        # pre-state macros of model/ada_types.h hide __CPROVER_old() from the textual substitution below: expand them first
        def expand(e):
            for _ in range(3):
                e = re.sub(r'AGG_CRED_KEPT\((\w+)\)', r'(AGG_HAS_USER(\1) == AGG_HAS_USER_OLD(\1) && AGG_HAS_PASS(\1) == AGG_HAS_PASS_OLD(\1))', e)
                e = re.sub(r'AGG_HAS_USER_OLD\((\w+)\)', r'(__CPROVER_old((\1)->components.protocol_end) + 2u < __CPROVER_old((\1)->components.username_end))', e)
                e = re.sub(r'AGG_HAS_PASS_OLD\((\w+)\)', r'(__CPROVER_old((\1)->components.host_start) > __CPROVER_old((\1)->components.username_end))', e)
                e = re.sub(r'AGG_HOST_EMPTY_OLD\((\w+)\)', r'(__CPROVER_old((\1)->components.host_start) == __CPROVER_old((\1)->components.host_end))', e)
            return e
        ens = [expand(e) for e in ens]
        ens2 = [old_sub(e) for e in ens]
        for name, inner in olds:
            body.append('  __typeof__(%s) %s = %s;' % (inner, name, inner))
        for a in asg:
            for t in [x.strip() for x in _split_top(a)]:
                if not t:
                    continue
                mm = re.match(r'^__CPROVER_object_whole\((.*)\)$', t)
                if mm:
                    body.append('  __CPROVER_havoc_object((void *)(%s));' % mm.group(1))
                else:
                    body.append('  __CPROVER_havoc_slice(&(%s), sizeof(%s));' % (t, t))
        if rtype != 'void':
            if rtype == '_Bool':
                body.append('  _Bool __ret = nondet_bool();')
            else:
                body.append('  %s __ret;' % rtype)
        for e in ens2:
            body.append('  __CPROVER_assume(%s);' % e.replace('__CPROVER_return_value', '__ret'))
        if rtype != 'void':
            body.append('  return __ret;')
        return sig + '\n{\n' + '\n'.join(body) + '\n}\n'

    def compose(self, roots, stop=(), stubs=None, havoc=(), stubbed=()):
        """C text: prototypes of everything, instance macros, lambdas, definitions. `stop` functions are emitted as
        bodyless prototypes (with their function contract if a spec exists) for --replace-call-with-contract."""
        order, seen = self.closure(roots, stop)
        out = []
        out.append('/* generated by cxx2c from %s (config %s) -- do not edit */' % (self.src or '/repo/src/ada.cpp', self.cfg))
        protos = []
        stub_defs = []
        for c in sorted(seen):
            if c in stop:
                n = self.node(c)
                tr = Tr(self.ctx, c, n, {})
                tr.instances = []
                if R[c]['cls']:
                    tr.self_ctype = R[c].get('selft') or SELF_T[R[c]['cls']]
                sig = tr.signature()
                spec = self.spec_for(c).get('function', [])
                if not spec and c in havoc:
                    spec = self.havoc_contract(c, tr, n)
                if c in stubbed:
                    protos.append(sig + ';')
                    stub_defs.append(self.stub_from_contract(sig, spec))
                else:
                    protos.append(sig + '\n' + '\n'.join(spec) + ';')
            else:
                protos.append(self.done[c]['proto'])
        out.extend(protos)
        insts = {}
        for c in order:
            for name, macro in self.done[c]['instances']:
                insts[name] = macro
        body = []
        for c in order:
            d = self.done[c]
            for l in d['lambdas']:
                body.append(l)
            # instances used by this function must be defined after the predicate (a lambda or an extracted fn)
            for name, macro in d['instances']:
                if name in insts:
                    body.append(insts.pop(name))
            body.append(d['text'])
        return '\n\n'.join(out) + '\n\n' + '\n\n'.join(stub_defs) + '\n\n' + '\n\n'.join(body) + '\n', order
