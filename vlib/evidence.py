"""Evidence writer: /verif/evidence/<Cxx>.json per /root/.vp/EVIDENCE.schema.json (level: proof)."""
import json, os, re
from .common import VERIF, ensure_dir
from .cxx2c import REWRITES, DROPS

TRUSTED = [
    'clang-14 JSON AST of the TU /repo/src/ada.cpp is the program; cxx2c (vlib/cxx2c.py, vlib/stdmodel.py) preserves semantics on its closed node list',
    'g++ constant evaluation gives the table values (vlib/tabdump.py)',
    'C models of std::string_view / std::string / optional / array / pair / from_chars / to_string / <algorithm> calls (model/base.h)',
    'C models of SSE2/SSSE3/AVX-512 intrinsics and __builtin_ctz/clz (model/simd.h)',
    'CBMC 6.11.0 (goto-cc, goto-instrument --dfcc, cbmc) and its SAT back ends (MiniSat 2.2.1 built in, kissat external)',
    'spec predicates transcribed from the WHATWG URL Standard / RFC 3492 / RFC 5893 / UTS46 prose (spec/*.h)',
]
ASSUMPTIONS = [
    'allocation never fails; no exception is thrown by std::string growth; a move behaves as a copy',
    'machine arithmetic is modelled bit-precisely (no mathematical integers)',
    'preconditions of contracted functions at call sites inside functions that are not under contract are assumed',
    'obligations graded B(n) assume the stated bound (string capacity / input length) and are not counted as proved',
]


def write(prop, tier, seed, obls, results, wall, nviol, extra=None):
    proof = [o for o in obls if o.is_proof]
    bounded = [o for o in obls if not o.is_proof]
    disc = [o for o in proof if results[o.name]['status'] == 'pass']
    fns = set()
    stubs = set()
    per = []
    cbmc_props = 0
    solver_secs = 0.0
    for o in obls:
        r = results[o.name]
        for f in (o.functions if o.functions is not None else r.get('functions', []) or o.roots):
            fns.add(f)
        for s in list(o.replace) + list(o.stop):
            stubs.add(s)
        cbmc_props += r.get('n_props') or 0
        solver_secs += r.get('solver_secs') or 0
        per.append(dict(name=o.name, grade=o.grade, bound=o.bound, config=o.cfg, status=r['status'],
                        enforce=o.enforce, replaced_callees=o.replace, loop_contracts=o.loop_contracts,
                        unwind=o.unwind, backend='SAT/' + o.solver, cbmc_properties=r.get('n_props'),
                        solver_s=round(r.get('solver_secs') or 0, 2), note=o.note,
                        reason=(r.get('reason') or '')[:300] or None))
    samples = []
    for o in (disc + bounded)[:6]:
        r = results[o.name]
        samples.append(dict(obligation=o.name, grade=o.grade, what=o.note, cmd=r.get('cmd'),
                            cbmc_properties=[('%s %s' % (p[0], p[1]))[:140] for p in (r.get('props') or [])
                                             if 'postcondition' in p[1] or 'assertion' in p[0]][:6]))
    # level: what MANIFEST.json claims for the property; a 'proof' claim needs at least one proof-grade obligation in this run,
    # otherwise the run is reported as 'other' (bounded contract checking) -- bounded obligations are never counted as proved
    level = 'proof'
    try:
        man = json.load(open(os.path.join(VERIF, 'MANIFEST.json')))
        for c in man.get('checks', []):
            if c.get('property_id') == prop:
                level = c.get('level_claimed', {}).get('category', 'proof')
    except Exception:
        pass
    if level == 'proof' and not proof:
        level = 'other'
    nb_ok = len([o for o in bounded if results[o.name]['status'] == 'pass'])
    ev = dict(
        property_id=prop, tier=tier, seed=seed, level=level,
        coverage=dict(
            obligations=len(proof), discharged=len(disc),
            checker_cmd='goto-cc --function <h> tu.c && goto-instrument --dfcc <h> [--enforce-contract f] [--replace-call-with-contract g] [--apply-loop-contracts] && cbmc --bounds-check --pointer-check --pointer-overflow-check --signed-overflow-check --div-by-zero-check --undefined-shift-check [--unwind N --unwinding-assertions] [--external-sat-solver kissat]  (driver: ./check %s --tier %s)' % (prop, tier),
            trusted_base=TRUSTED,
            cbmc_properties_checked=cbmc_props,
            functions_under_contract=sorted(fns),
            assumed_contracts_on_callees=sorted(stubs),
            bounded=[dict(name=o.name, bound=o.bound or o.grade, status=results[o.name]['status']) for o in bounded],
            per_obligation=per,
            samples=samples or [dict(obligation=o.name) for o in obls[:3]],
            solver_s=round(solver_secs, 1),
            extraction=dict(source='/repo/src/ada.cpp (clang-14 -ast-dump=json, one dump per function, every run)',
                            rewrites=REWRITES, drops=DROPS),
            not_proved=[dict(name=o.name, status=results[o.name]['status'], reason=(results[o.name].get('reason') or '')[:200])
                        for o in obls if results[o.name]['status'] not in ('pass',)],
            bounded_obligations=len(bounded), bounded_discharged=nb_ok,
            explanation=('obligations/discharged count proof-grade (unbounded or domain-complete) obligations only; bounded stand-ins are listed under "bounded" and never counted as proved'
                         if level == 'proof' else
                         'bounded contract checking, not a proof: %d contract obligations on the real (extracted) code were discharged by CBMC for ALL symbolic inputs up to the bound stated with each '
                         'obligation (%d of %d discharged); %d proof-grade obligations' % (len(bounded), nb_ok, len(bounded), len(proof))),
        ),
        assumptions=ASSUMPTIONS + (extra or []),
        wall_s=round(wall, 1), violations=nviol,
    )
    d = ensure_dir(os.path.join(VERIF, 'evidence'))
    with open(os.path.join(d, prop + '.json'), 'w') as f:
        json.dump(ev, f, indent=1)
    return ev
