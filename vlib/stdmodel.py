"""Mapping of std:: (and compiler builtin) operations met in the AST to the C model functions of /verif/model.

Closed lists: an operation outside them returns None and the translator aborts the extraction (exit 2).
Model function names are <class>_<method>__<argkinds> with argkinds: z integer, c char, sv string view (std::string,
literals and string_view arguments are normalised to a view), p raw pointer.
"""
import re
from .ctypes_map import map_type, Unsupported, ITER, strip_cv
from .cxx2c import qt, strip, parse_fn_params, balanced

SV_RO = {'size', 'length', 'empty', 'data', 'begin', 'end', 'cbegin', 'cend', 'front', 'back', 'substr', 'find',
         'rfind', 'find_first_of', 'find_last_of', 'starts_with', 'ends_with', 'compare', 'at', 'find_first_not_of'}
INTRINSIC_PREFIX = ('_mm_', '_mm512_', '__builtin_', '_mm256_', '_cvt', '_k')

used_instances = None  # set by the composer


def argkind(tr, a):
    """returns (kind, cexpr)"""
    q = qt(a)
    s = strip(a)
    try:
        ct = map_type(q)
    except Unsupported:
        tr.bad('argument type ' + q, a)
    if ct.klass == 'sv':
        return 'sv', tr.e(a)
    if ct.klass == 'str':
        return 'sv', 'str_sv(%s)' % tr.addr(a, 'str_t')
    if ct.klass == 'u32sv':
        return 'u32sv', tr.e(a)
    if ct.klass == 'u32str':
        return 'u32sv', 'u32str_sv(%s)' % tr.addr(a, 'u32str_t')
    if ct.ptr and not ct.klass:
        if s.get('kind') == 'StringLiteral' or (s.get('kind') == 'ImplicitCastExpr' and strip(s['inner'][0]).get('kind') == 'StringLiteral'):
            lit = s if s.get('kind') == 'StringLiteral' else strip(s['inner'][0])
            if '\\0' in lit['value'] or '\\x00' in lit['value']:
                tr.bad('string literal with embedded NUL', a)
            return 'sv', 'SV_LIT(%s)' % lit['value']
        return 'p', tr.e(a)
    if ct.klass is None and not ct.arr:
        if ct.c == 'char':
            return 'c', tr.e(a)
        return 'z', tr.e(a)
    if ct.arr and ct.c in ('char', 'const char'):
        if s.get('kind') == 'StringLiteral':
            return 'sv', 'SV_LIT(%s)' % s['value']
        return 'p', tr.e(a)
    return ct.klass, tr.e(a)


def norm_args(tr, argn):
    kinds, exprs = [], []
    for a in argn:
        if a.get('kind') == 'CXXDefaultArgExpr':
            continue
        k, e = argkind(tr, a)
        kinds.append(k); exprs.append(e)
    return kinds, exprs


def as_sv(tr, a):
    k, e = argkind(tr, a)
    if k == 'p':
        return 'sv_from_cstr(%s)' % e
    if k != 'sv':
        tr.bad('expected string-like operand, got ' + str(k), a)
    return e


def sfx(kinds):
    return ('__' + '_'.join(kinds)) if kinds else ''


# ---------------------------------------------------------------------------------------------- member calls
def member_call(tr, ok, name, obj, arrow, argn, n):
    def objaddr(ct):
        return tr.e(obj) if arrow else tr.addr(obj, ct)

    def objval():
        e = tr.e(obj)
        return '(*%s)' % e if arrow else e

    if name.startswith('operator '):
        # conversion functions
        if ok == 'str' and 'basic_string_view' in name:
            return 'str_sv(%s)' % objaddr('str_t')
        if ok == 'u32str' and 'basic_string_view' in name:
            return 'u32str_sv(%s)' % objaddr('u32str_t')
        if ok in ('opt', 'result') and name == 'operator bool':
            return '%s.has' % objval()
        return None
    if ok == 'veckv':
        # size-only model of the parameter list
        o = objval()
        if name == 'clear':
            return '(%s.n = 0)' % o
        if name == 'reserve':
            return '((void)(%s))' % tr.e(argn[0])
        if name in ('size',):
            return '%s.n' % o
        if name == 'empty':
            return '(%s.n == 0)' % o
        if name in ('emplace_back', 'push_back'):
            ev = []
            for a in argn:
                k, e = argkind(tr, a)
                ev.append('(void)(%s)' % e)
            return '(%s, %s.n++)' % (', '.join(ev), o) if ev else '(%s.n++)' % o
        return None
    if ok == 'sv':
        kinds, exprs = norm_args(tr, argn)
        if name in ('remove_prefix', 'remove_suffix', 'swap'):
            return 'sv_%s%s(%s)' % (name, sfx(kinds), ', '.join([objaddr('sv_t')] + exprs))
        if name in ('length',):
            name = 'size'
        if name in ('cbegin',):
            name = 'begin'
        if name in ('cend',):
            name = 'end'
        if name not in SV_RO:
            return None
        return 'sv_%s%s(%s)' % (name, sfx(kinds), ', '.join([objval()] + exprs))
    if ok == 'str':
        kinds, exprs = norm_args(tr, argn)
        if name == 'length':
            name = 'size'
        if name in ('size', 'empty', 'find', 'rfind', 'find_first_of', 'starts_with', 'ends_with', 'compare',
                    'find_last_of', 'find_first_not_of'):
            return 'sv_%s%s(%s)' % (name, sfx(kinds), ', '.join(['str_sv(%s)' % objaddr('str_t')] + exprs))
        if name == 'substr':
            return 'str_ctor__sv(sv_substr%s(%s))' % (sfx(kinds), ', '.join(['str_sv(%s)' % objaddr('str_t')] + exprs))
        if name in ('data', 'c_str', 'begin', 'end', 'cbegin', 'cend', 'front', 'back'):
            r = 'str_%s(%s)' % ({'c_str': 'data', 'cbegin': 'begin', 'cend': 'end'}.get(name, name), objaddr('str_t'))
            if name in ('front', 'back'):
                return '(*%s)' % r
            return r
        if name in ('append', 'insert', 'erase', 'replace', 'resize', 'clear', 'reserve', 'push_back', 'pop_back',
                    'assign', 'shrink_to_fit'):
            return 'str_%s%s(%s)' % (name, sfx(kinds), ', '.join([objaddr('str_t')] + exprs))
        return None
    if ok in ('u32str', 'u32sv'):
        kinds, exprs = norm_args(tr, argn)
        if name == 'length':
            name = 'size'
        ro = name in ('size', 'empty', 'data', 'begin', 'end', 'front', 'back', 'find', 'substr', 'starts_with')
        if ok == 'u32sv':
            if name in ('remove_prefix', 'remove_suffix'):
                return 'u32sv_%s%s(%s)' % (name, sfx(kinds), ', '.join([objaddr('u32sv_t')] + exprs))
            return 'u32sv_%s%s(%s)' % (name, sfx(kinds), ', '.join([objval()] + exprs))
        r = 'u32str_%s%s(%s)' % (name, sfx(kinds), ', '.join([objaddr('u32str_t')] + exprs))
        if name in ('front', 'back'):
            return '(*%s)' % r
        return r
    if ok == 'opt':
        if name == 'has_value':
            return '%s.has' % objval()
        if name == 'value':
            return '%s.v' % objval()
        if name == 'reset':
            return '(%s.has = 0)' % objval()
        if name == 'emplace':
            ct = map_type(strip_cv(qt(obj)).rstrip('*').strip() if arrow else qt(obj))
            v = construct_from(tr, ct.elem, argn, n)
            return '(%s = (%s){1, %s})' % (objval(), ct.c, v)
        if name == 'value_or':
            return 'OPT_VALUE_OR(%s, %s)' % (objval(), tr.e(argn[0]))
        return None
    if ok == 'result':
        if name == 'has_value':
            return '%s.has' % objval()
        if name == 'value':
            return '%s.v' % objval()
        return None
    if ok == 'arr':
        if name == 'data' or name == 'begin':
            return '%s.a' % objval()
        if name == 'size':
            return '(sizeof(%s.a)/sizeof(%s.a[0]))' % (objval(), objval())
        return None
    return None


def construct_from(tr, ct, argn, n):
    """construct a value of mapped type ct from argument nodes (used by optional::emplace etc.)"""
    kinds, exprs = norm_args(tr, argn)
    if ct.klass == 'str':
        if not kinds:
            return 'str_ctor()'
        return 'str_ctor%s(%s)' % (sfx(kinds), ', '.join(exprs))
    if ct.klass == 'sv':
        if kinds == ['p', 'z']:
            return '((sv_t){%s, %s})' % tuple(exprs)
        if kinds == ['sv']:
            return exprs[0]
    if ct.klass is None and len(exprs) == 1:
        return '((%s)%s)' % (ct.c, exprs[0])
    tr.bad('emplace/construct of %s from %s' % (ct.c, kinds), n)


# ---------------------------------------------------------------------------------------------- constructors
def construct(tr, n):
    ct = tr.ctype_of(n)
    argn = [a for a in n.get('inner', []) if a.get('kind') != 'CXXDefaultArgExpr']
    k = ct.klass
    if k == 'sv':
        if not argn:
            return '((sv_t){0, 0})'
        kinds, exprs = norm_args(tr, argn)
        if kinds == ['sv']:
            return exprs[0]
        if kinds == ['p']:
            return 'sv_from_cstr(%s)' % exprs[0]
        if kinds == ['p', 'z']:
            return '((sv_t){%s, %s})' % tuple(exprs)
        if kinds == ['sv', 'z']:     # string_view("literal", n)
            return '((sv_t){(%s).p, %s})' % tuple(exprs)
        if kinds == ['p', 'p']:
            return 'sv_ctor__p_p(%s, %s)' % tuple(exprs)
        return None
    if k == 'str':
        if not argn:
            return 'str_ctor()'
        if len(argn) == 1 and tr.klass(argn[0]) == 'str':
            return tr.e(argn[0])       # copy / move construction: value copy
        kinds, exprs = norm_args(tr, argn)
        if kinds == ['p']:
            kinds, exprs = ['sv'], ['sv_from_cstr(%s)' % exprs[0]]
        return 'str_ctor%s(%s)' % (sfx(kinds), ', '.join(exprs))
    if k == 'u32str':
        if not argn:
            return 'u32str_ctor()'
        if len(argn) == 1 and tr.klass(argn[0]) == 'u32str':
            return tr.e(argn[0])
        kinds, exprs = norm_args(tr, argn)
        return 'u32str_ctor%s(%s)' % (sfx(kinds), ', '.join(exprs))
    if k == 'u32sv':
        if not argn:
            return '((u32sv_t){0, 0})'
        kinds, exprs = norm_args(tr, argn)
        if kinds == ['u32sv']:
            return exprs[0]
        if kinds == ['p', 'z']:
            return '((u32sv_t){%s, %s})' % tuple(exprs)
        return None
    if k == 'opt':
        if not argn:
            return '((%s){0})' % ct.c
        a0 = argn[0]
        q0 = qt(a0)
        if 'nullopt_t' in q0:
            return '((%s){0})' % ct.c
        k0 = tr.klass(a0)
        if k0 == 'opt':
            return tr.e(a0)
        if k0 == 'tag':
            return '((%s){0})' % ct.c
        # in_place?  value construction
        if ct.elem.klass == 'str' and k0 != 'str':
            return '((%s){1, %s})' % (ct.c, construct_from(tr, ct.elem, argn, n))
        return '((%s){1, %s})' % (ct.c, tr.e(a0))
    if k == 'pair':
        if len(argn) == 2:
            return '((%s){%s, %s})' % (ct.c, tr.e(argn[0]), tr.e(argn[1]))
        if len(argn) == 1 and tr.klass(argn[0]) == 'pair':
            return tr.e(argn[0])
        return None
    if k == 'arr':
        if not argn:
            return '((%s){{0}})' % ct.c
        if len(argn) == 1 and tr.klass(argn[0]) == 'arr':
            return tr.e(argn[0])
        return None
    if k in ('agg', 'url', 'comp', 'base', 'usp'):
        if not argn:
            nm = ct.c.replace('struct ', '') + '_default'
            tr.ctx.need_globals.add((nm, '@default'))
            return 'G_' + nm
        if len(argn) == 1 and tr.klass(argn[0]) == k:
            return tr.e(argn[0])
        return None
    if k == 'result':
        if len(argn) == 1:
            a0 = argn[0]
            if tr.klass(a0) == 'result':
                return tr.e(a0)
            if 'unexpected' in qt(a0):
                return '((%s){0})' % ct.c
            if tr.klass(a0) == ct.elem.klass:
                return '((%s){1, %s})' % (ct.c, tr.e(a0))
            if ct.elem.klass == 'str':
                # tl::expected<std::string, E> from a string literal / string_view: converting constructor of the value
                v = construct_from(tr, ct.elem, argn, n)
                if v is not None:
                    return '((%s){1, %s})' % (ct.c, v)
        return None
    if k in ('ada_string', 'ada_owned_string', 'ada_url_components'):
        if not argn:
            return '((%s){0})' % ct.c
        if len(argn) == 1 and tr.klass(argn[0]) == k:
            return tr.e(argn[0])
        return None
    if k == 'tag':
        return '0'
    if k is None and len(argn) == 1:
        return '((%s)%s)' % (ct.c, tr.e(argn[0]))
    return None


# ---------------------------------------------------------------------------------------------- operators
RANGES = {'__find_if_fn': 'find_if', '__find_if_not_fn': 'find_if_not', '__any_of_fn': 'any_of',
          '__all_of_fn': 'all_of', '__none_of_fn': 'none_of', '__count_if_fn': 'count_if'}


def predicate_name(tr, p):
    s = strip(p)
    if s.get('kind') == 'LambdaExpr':
        info = tr.make_lambda(s)
        return info['fn']
    if s.get('kind') == 'DeclRefExpr':
        rid = s['referencedDecl'].get('id')
        if rid in tr.lambdas:
            return tr.lambdas[rid]['fn']
        return tr.e(s)
    if s.get('kind') in ('ImplicitCastExpr', 'UnaryOperator'):
        return predicate_name(tr, s['inner'][0])
    tr.bad('predicate form', p)


def instance(tr, alg, rk, pred):
    name = '%s__%s__%s' % (alg, rk, pred)
    tr.instances.append((name, 'DEFINE_%s_%s(%s, %s)' % (alg.upper(), rk.upper(), name, pred)))
    return name


def operator_call(tr, opname, ops, n, callee):
    q0 = qt(ops[0]) if ops else ''
    k0 = tr.klass(ops[0]) if ops else None
    if opname == 'operator()':
        o = strip(ops[0])
        if o.get('kind') == 'DeclRefExpr':
            rid = o['referencedDecl'].get('id')
            if rid in tr.lambdas:
                info = tr.lambdas[rid]
                outs = [tr.pass_arg(a, pt) for a, pt in zip(ops[1:], info['params'])]
                return '%s(%s)' % (info['fn'], ', '.join(outs))
            t = o['referencedDecl']['type']['qualType']
            if '__stable_sort_fn' in t or '__sort_fn' in t:
                # std::ranges::(stable_)sort(range, comparator): the algorithm itself is trusted (std); the comparator is
                # extracted as a function of its own and is what the obligations examine
                info = tr.make_lambda(strip(ops[2])) if strip(ops[2]).get('kind') == 'LambdaExpr' else None
                if info is None:
                    tr.bad('sort comparator form', n)
                return '((void)0) /* std::ranges::stable_sort(<range>, %s): trusted */' % info['fn']
            if '__mismatch_fn' in t and len(ops) >= 3 and all(x.get('kind') == 'CXXDefaultArgExpr' for x in ops[3:]) and tr.klass(ops[1]) in ('str', 'sv') and tr.klass(ops[2]) in ('str', 'sv'):
                # std::ranges::mismatch(r1, r2) over two character ranges: first position where they differ
                return 'sv_mismatch(%s, %s)' % (as_sv(tr, ops[1]), as_sv(tr, ops[2]))
            for key, alg in RANGES.items():
                if key in t:
                    rng = ops[1]
                    rk = tr.klass(rng)
                    pred = predicate_name(tr, ops[2])
                    if rk == 'sv':
                        return '%s(%s)' % (instance(tr, alg, 'sv', pred), tr.e(rng))
                    if rk == 'str':
                        rs = strip(rng)
                        const = 'const' in qt(rng)
                        if alg in ('find_if', 'find_if_not') and not const:
                            return '%s(%s)' % (instance(tr, alg, 'str', pred), tr.addr(rng, 'str_t'))
                        return '%s(str_sv(%s))' % (instance(tr, alg, 'sv', pred), tr.addr(rng, 'str_t'))
                    if rk == 'u32sv':
                        return '%s(%s)' % (instance(tr, alg, 'u32sv', pred), tr.e(rng))
                    if rk == 'u32str':
                        return '%s(u32str_sv(%s))' % (instance(tr, alg, 'u32sv', pred), tr.addr(rng, 'u32str_t'))
                    tr.bad('ranges algorithm over ' + qt(rng), n)
        return None
    # iterator-as-pointer operators
    if strip_cv(q0) in ITER or (len(ops) > 1 and strip_cv(qt(ops[1])) in ITER):
        a = tr.e(ops[0])
        if opname == 'operator*':
            return '(*%s)' % a
        if opname == 'operator++':
            return '(%s++)' % a if len(ops) > 1 else '(++%s)' % a
        if opname == 'operator--':
            return '(%s--)' % a if len(ops) > 1 else '(--%s)' % a
        b = tr.e(ops[1])
        sym = opname[len('operator'):]
        if sym in ('-', '+', '==', '!=', '<', '>', '<=', '>=', '+=', '-='):
            return '(%s %s %s)' % (a, sym, b)
        return None
    if opname in ('operator==', 'operator!='):
        ka = k0; kb = tr.klass(ops[1])
        if ka in ('sv', 'str') or kb in ('sv', 'str'):
            r = 'sv_eq(%s, %s)' % (as_sv(tr, ops[0]), as_sv(tr, ops[1]))
            return r if opname == 'operator==' else '(!%s)' % r
        if ka in ('u32sv', 'u32str'):
            r = 'u32sv_eq(%s, %s)' % (argkind(tr, ops[0])[1], argkind(tr, ops[1])[1])
            return r if opname == 'operator==' else '(!%s)' % r
        if ka == 'opt' and kb == 'opt':
            tr.bad('optional comparison', n)
        if ka == 'opt' and map_type(q0).elem.klass == 'str' and kb is None:
            # std::optional<std::string> == "literal": engaged and equal
            k1, e1 = argkind(tr, ops[1])
            if k1 in ('p', 'sv'):
                lhs = tr.e(ops[0])
                r = '(%s.has && sv_eq(str_sv(&%s.v), %s))' % (lhs, lhs, e1 if k1 == 'sv' else 'sv_from_cstr(%s)' % e1)
                return r if opname == 'operator==' else '(!%s)' % r
        return None
    if opname == 'operator<=>':
        if k0 in ('sv', 'str') or tr.klass(ops[1]) in ('sv', 'str'):
            return 'sv_compare__sv(%s, %s)' % (as_sv(tr, ops[0]), as_sv(tr, ops[1]))
        return None
    if opname == 'operator[]':
        if k0 == 'sv':
            return 'sv_at(%s, %s)' % (tr.e(ops[0]), tr.e(ops[1]))
        if k0 == 'str':
            return '(*str_at(%s, %s))' % (tr.addr(ops[0], 'str_t'), tr.e(ops[1]))
        if k0 == 'u32sv':
            return 'u32sv_at(%s, %s)' % (tr.e(ops[0]), tr.e(ops[1]))
        if k0 == 'u32str':
            return '(*u32str_at(%s, %s))' % (tr.addr(ops[0], 'u32str_t'), tr.e(ops[1]))
        if k0 == 'arr':
            return '%s.a[%s]' % (tr.e(ops[0]), tr.e(ops[1]))
        return None
    if opname == 'operator*' and k0 in ('opt', 'result'):
        return '%s.v' % tr.e(ops[0])
    if opname == 'operator->' and k0 in ('opt', 'result'):
        return '&%s.v' % tr.e(ops[0])
    if opname == 'operator+=':
        if k0 == 'str':
            kinds, exprs = norm_args(tr, ops[1:])
            if kinds == ['c']:
                return 'str_push_back__c(%s, %s)' % (tr.addr(ops[0], 'str_t'), exprs[0])
            if kinds == ['sv']:
                return 'str_append__sv(%s, %s)' % (tr.addr(ops[0], 'str_t'), exprs[0])
            if kinds == ['p']:
                return 'str_append__sv(%s, sv_from_cstr(%s))' % (tr.addr(ops[0], 'str_t'), exprs[0])
        if k0 == 'u32str':
            kinds, exprs = norm_args(tr, ops[1:])
            return 'u32str_append%s(%s, %s)' % (sfx(kinds), tr.addr(ops[0], 'u32str_t'), exprs[0])
        return None
    if opname == 'operator=':
        k1 = tr.klass(ops[1])
        lhs = tr.e(ops[0])
        if k0 == 'str':
            if k1 == 'str':
                return '(%s = %s)' % (lhs, tr.e(ops[1]))
            kinds, exprs = norm_args(tr, ops[1:])
            if kinds == ['p']:
                kinds, exprs = ['sv'], ['sv_from_cstr(%s)' % exprs[0]]
            return 'str_assign%s(%s, %s)' % (sfx(kinds), tr.addr(ops[0], 'str_t'), exprs[0])
        if k0 == 'u32str' and k1 == 'u32str':
            return '(%s = %s)' % (lhs, tr.e(ops[1]))
        if k0 == 'opt':
            ct = map_type(q0)
            if k1 == 'opt':
                return '(%s = %s)' % (lhs, tr.e(ops[1]))
            if 'nullopt_t' in qt(ops[1]):
                return '(%s.has = 0)' % lhs
            if ct.elem.klass == 'str' and k1 != 'str':
                return '(%s = (%s){1, %s})' % (lhs, ct.c, construct_from(tr, ct.elem, ops[1:], n))
            return '(%s = (%s){1, %s})' % (lhs, ct.c, tr.e(ops[1]))
        if k0 in ('sv', 'agg', 'url', 'comp', 'pair', 'arr', 'u32sv', 'usp', 'result') and k1 == k0:
            return '(%s = %s)' % (lhs, tr.e(ops[1]))
        if k0 == 'sv' and k1 in ('str',):
            return '(%s = %s)' % (lhs, as_sv(tr, ops[1]))
        return None
    if opname == 'operator+':
        if k0 in ('str', 'sv') or tr.klass(ops[1]) in ('str', 'sv'):
            return 'str_concat__sv_sv(%s, %s)' % (as_sv(tr, ops[0]), as_sv(tr, ops[1]))
        return None
    if opname in ('operator<', 'operator>', 'operator<=', 'operator>=') and 'strong_ordering' in q0:
        # C++20 rewritten comparison (a <=> b) OP 0
        return '(%s %s 0)' % (tr.e(ops[0]), opname[len('operator'):])
    if opname in ('operator<', 'operator>', 'operator<=', 'operator>='):
        if k0 in ('sv', 'str'):
            sym = opname[len('operator'):]
            return '(sv_compare__sv(%s, %s) %s 0)' % (as_sv(tr, ops[0]), as_sv(tr, ops[1]), sym)
        return None
    if opname == 'operator<<':
        return '((void)0)'   # only inside ADA_ASSERT diagnostics, which are replaced wholesale
    return None


# ---------------------------------------------------------------------------------------------- free functions
STD_FREE = {'memcpy': 'memcpy', 'memcmp': 'memcmp', 'memmove': 'memmove', 'memset': 'memset', 'strlen': 'strlen'}


MODEL_FREE = {'get_max_input_length': 'get_max_input_length'}


def free_call(tr, name, sig, argn, n):
    if name in MODEL_FREE and not argn:
        return '%s()' % MODEL_FREE[name]
    if name in ('move', 'forward', 'addressof') and len(argn) == 1 and 'remove_reference' in sig or name in ('move', 'forward') and len(argn) == 1:
        if name == 'addressof':
            return tr.addr(argn[0])
        return tr.e(argn[0])
    if name == 'count' and len(argn) == 3:
        b, e = strip(argn[0]), strip(argn[1])
        def whole_(x, which):
            while x.get('kind') in ('ImplicitCastExpr', 'MaterializeTemporaryExpr', 'CXXConstructExpr', 'ExprWithCleanups') and x.get('inner'):
                x = strip(x['inner'][-1])
            if x.get('kind') == 'CXXMemberCallExpr':
                me = strip(x['inner'][0])
                if me.get('kind') == 'MemberExpr' and me.get('name') in which:
                    return me['inner'][0]
            return None
        wb, we = whole_(b, ('begin', 'cbegin')), whole_(e, ('end', 'cend'))
        if wb is not None and we is not None and tr.e(wb) == tr.e(we) and tr.klass(wb) in ('sv', 'str'):
            return 'sv_count__c(%s, %s)' % (as_sv(tr, wb), tr.e(argn[2]))
        return None
    if name in ('any_of', 'all_of', 'none_of') and len(argn) == 3:
        # iterator-pair form std::any_of(x.begin(), x.end(), pred) over one string / view
        b, e = strip(argn[0]), strip(argn[1])
        def whole(x, which):
            while x.get('kind') in ('ImplicitCastExpr', 'MaterializeTemporaryExpr', 'CXXConstructExpr', 'ExprWithCleanups') and x.get('inner'):
                x = strip(x['inner'][-1])
            if x.get('kind') == 'CXXMemberCallExpr':
                me = strip(x['inner'][0])
                if me.get('kind') == 'MemberExpr' and me.get('name') in which:
                    return me['inner'][0], me.get('isArrow', False)
            return None
        wb, we = whole(b, ('begin', 'cbegin')), whole(e, ('end', 'cend'))
        if wb and we and tr.e(wb[0]) == tr.e(we[0]):
            obj, arrow = wb
            k = tr.klass(obj) if not arrow else None
            pred = predicate_name(tr, argn[2])
            if k == 'sv':
                return '%s(%s)' % (instance(tr, name, 'sv', pred), tr.e(obj))
            if k == 'str' or arrow:
                oe = tr.e(obj)
                return '%s(str_sv(%s))' % (instance(tr, name, 'sv', pred), oe if arrow else tr.addr(obj, 'str_t'))
        return None
    if name == 'memcpy' and len(argn) == 3:
        sz = strip(argn[2])
        while sz.get('kind') in ('ImplicitCastExpr', 'CStyleCastExpr') and sz.get('inner'):
            sz = strip(sz['inner'][0])
        if sz.get('kind') == 'IntegerLiteral' and int(sz['value']) <= 16:
            # small constant-size copy: byte-wise, loop-free (CBMC's array_replace primitive trips the loop-contract
            # frame check for arrays declared inside the loop body)
            return 'MEMCPY_%s(%s, %s)' % (sz['value'], tr.e(argn[0]), tr.e(argn[1]))
    if name in STD_FREE and ('void *' in sig or 'const char *' in sig):
        return '%s(%s)' % (STD_FREE[name], ', '.join(tr.e(a) for a in argn))
    if name == 'distance':
        return '((long)(%s - %s))' % (tr.e(argn[1]), tr.e(argn[0]))
    if name == 'abort' and not argn:
        return '__CPROVER_assert(0, "abort() reached")'
    if name == 'is_constant_evaluated':
        return '0'
    if name == 'to_string' and len(argn) == 1 and 'std::string' in sig.replace('basic_string<char>', 'string') and '(' in sig:
        params, _ = parse_fn_params(sig)
        if len(params) == 1 and map_type(params[0]).klass is None:
            return 'std_to_string__%s(%s)' % (re.sub(r'\W+', '_', map_type(params[0]).c), tr.e(argn[0]))
        return None
    if name == 'from_chars':
        params, _ = parse_fn_params(sig)
        vt = map_type(params[2]).c
        args = [tr.e(argn[0]), tr.e(argn[1]), tr.addr(argn[2])]
        return 'std_from_chars__%s(%s)' % (re.sub(r'\W+', '_', vt), ', '.join(args))
    if name == 'to_chars' and len(argn) >= 3 and all(x.get('kind') == 'CXXDefaultArgExpr' for x in argn[3:]):
        params, _ = parse_fn_params(sig)
        vt = map_type(params[2]).c
        return 'std_to_chars__%s(%s, %s, %s)' % (re.sub(r'\W+', '_', vt), tr.e(argn[0]), tr.e(argn[1]), tr.e(argn[2]))
    if name in ('min', 'max') and len(argn) == 2:
        a, b = tr.e(argn[0]), tr.e(argn[1])
        return ('STD_MIN(%s, %s)' if name == 'min' else 'STD_MAX(%s, %s)') % (a, b)
    if name == 'erase_if' and len(argn) == 2:
        pred = predicate_name(tr, argn[1])
        rk = tr.klass(argn[0])
        if rk == 'str':
            return '%s(%s)' % (instance(tr, 'erase_if', 'str', pred), tr.addr(argn[0], 'str_t'))
        return None
    if name == 'concat' and 'std::string' in sig.replace('basic_string<char>', 'string'):
        svs = [as_sv(tr, a) for a in argn]
        return 'helpers_concat__%d(%s)' % (len(svs), ', '.join(svs))
    if name == 'unreachable' and not argn:
        return '__CPROVER_assert(0, "ada::unreachable() reached")'
    if name == 'popcount' or name == 'countr_zero' or name == 'countl_zero':
        return 'std_%s(%s)' % (name, tr.e(argn[0]))
    if name.startswith('__builtin_'):
        return '%s_model(%s)' % (name, ', '.join(tr.e(a) for a in argn))
    if name.startswith(INTRINSIC_PREFIX):
        return '%s(%s)' % (name, ', '.join(tr.e(a) for a in argn))
    if name == 'operator new' or name == 'operator delete':
        return None
    return None


DEFAULT_ARGS = {}


def default_arg(cname, i):
    return DEFAULT_ARGS.get((cname, i))


def new_expr(tr, n):
    ct = tr.ctype_of(n)   # pointer type
    inner = [c for c in n.get('inner', []) if c.get('kind') != 'CXXDefaultArgExpr']
    if n.get('isArray'):
        size = tr.e(inner[0])
        return '((%s)new_model(sizeof(%s) * (%s)))' % (ct.c, ct.elem.c, size)
    if inner:
        v = tr.e(inner[-1])
        return 'NEW__%s(%s)' % (re.sub(r'\W+', '_', ct.elem.c.replace('struct ', '')), v)
    return '((%s)new_model(sizeof(%s)))' % (ct.c, ct.elem.c)


def delete_expr(tr, n):
    return 'free((void*)%s)' % tr.e(n['inner'][0])
