"""cxx2c: mechanical translation of clang-14 JSON AST function definitions to C for CBMC.

Closed list of node kinds; anything else raises Unsupported (=> the obligation is UNDECIDED, exit 2).
What is rewritten / dropped is documented in DESIGN.md section 2.1 and echoed into evidence files.
"""
import re
from .ctypes_map import map_type, Unsupported, CType, strip_cv

REWRITES = [
    'namespaces/classes flattened to C identifiers; this -> explicit self pointer; references -> pointers (const refs to scalars/string_view by value)',
    'std::string_view/std::string/std::optional/std::array/std::pair/tl::expected -> C structs of /verif/model, member calls -> model functions of the same name',
    'std::memcpy/memcmp, std::from_chars/to_chars/to_string, std::ranges::any_of/all_of/find_if/find_if_not, std::erase_if, std::distance -> model functions; predicates stay the extracted functions',
    'SIMD intrinsics and __builtin_ctz/clz -> loop-free C models (model/simd.h)',
    'constexpr/consteval data -> static const arrays whose values are printed by a g++-compiled dumper TU that includes /repo/src/ada.cpp',
    'ADA_ASSERT_* expansions (if ... abort()) -> __CPROVER_assert in the devchecks configuration; absent otherwise (as in the shipped binary)',
    'lambdas that do not escape -> closure-converted static C functions (captures passed through file-scope cells)',
]
DROPS = ['noexcept', 'attributes ([[likely]], [[nodiscard]], always_inline)', 'ada_log(...) (expands to nothing)',
         'exception edges (allocation failure / length_error assumed absent)', 'move vs copy (move modelled as copy)',
         'destructor calls of std objects']

TRANSPARENT = ('ConstantExpr', 'ExprWithCleanups', 'MaterializeTemporaryExpr', 'CXXBindTemporaryExpr',
               'SubstNonTypeTemplateParmExpr', 'FullExpr')

PASS_CASTS = ('LValueToRValue', 'NoOp', 'FunctionToPointerDecay', 'ConstructorConversion', 'UserDefinedConversion',
              'BuiltinFnToFnPtr')


def qt(n):
    t = n.get('type', {})
    return t.get('desugaredQualType', t.get('qualType', ''))


def strip(n):
    """look through transparent wrappers and no-op casts"""
    while True:
        k = n.get('kind')
        if k in TRANSPARENT or k == 'ParenExpr':
            n = n['inner'][-1]
        elif k in ('ImplicitCastExpr',) and n.get('castKind') in PASS_CASTS:
            n = n['inner'][-1]
        else:
            return n


def norm_sig(s):
    s = re.sub(r'\[\[[^\]]*\]\]', '', s)
    s = re.sub(r'\bconst\b', '', s)
    s = re.sub(r'\bnoexcept(\(true\))?', '', s)
    s = s.replace('std::string_view', 'std::basic_string_view<char>').replace('std::string', 'std::basic_string<char>')
    return re.sub(r'\s+', '', s)


def parse_fn_params(sig):
    """'R (A, B &, const C &) const noexcept' -> ['A','B &','const C &']"""
    sig = re.sub(r'\[\[[^\]]*\]\]', '', sig).strip()
    m = re.match(r'^auto (\(.*\))\s*(const)?\s*(noexcept)?\s*->\s*(.*)$', sig)
    if m:
        sig = '%s %s %s' % (m.group(4), m.group(1), m.group(2) or '')
        sig = sig.strip()
    i = sig.find('(')
    # find matching top-level parameter list: first '(' whose matching ')' is followed by optional qualifiers
    depth = 0
    start = None
    for j, ch in enumerate(sig):
        if ch == '(':
            if depth == 0:
                start = j
            depth += 1
        elif ch == ')':
            depth -= 1
            if depth == 0:
                inner = sig[start + 1:j]
                rest = sig[j + 1:].strip()
                if rest == '' or re.match(r'^(const)?\s*(noexcept(\(true\))?)?\s*(__attribute__.*)?$', rest):
                    from .ctypes_map import split_targs
                    ps = split_targs(inner)
                    return [p for p in ps if p and p != 'void'], sig[:start].strip()
    raise Unsupported('cannot parse function type ' + sig)


def pass_mode(ptype_str):
    """How a parameter of C++ type ptype_str is passed in the generated C: 'val' or 'ptr'. Returns (mode, CType)."""
    ct = map_type(ptype_str)
    if not ct.ref:
        return 'val', ct
    base = ptype_str.strip().rstrip('&').strip()
    if base.endswith('*'):
        is_const = False          # reference to a non-const pointer (e.g. const char *&)
    elif re.search(r'\*\s*const$', base):
        is_const = True
    else:
        is_const = base.startswith('const ') or base.endswith(' const')
    if is_const and (ct.klass in (None, 'sv', 'u32sv') and not ct.arr):
        return 'val', ct
    return 'ptr', ct


class Ctx:
    """What the translator needs from outside: callee resolution and need-collection."""
    def __init__(self, resolve_free, resolve_method, devchecks=False):
        self.resolve_free = resolve_free      # (name, sigstr) -> cname or None
        self.resolve_method = resolve_method  # (klass, name, nargs) -> (cname, sig) or None
        self.devchecks = devchecks
        self.need_globals = set()             # (name, qualType)
        self.need_enums = set()               # (enum type, enumerator)
        self.callees = set()


class Tr:
    def __init__(self, ctx, cname, node, spec=None):
        self.ctx, self.cname, self.node = ctx, cname, node
        self.spec = spec or {}
        self.out = []
        self.pre = [[]]
        self.cond_depth = 0
        self.tmpn = 0
        self.loopn = 0
        self.ptr_vars = {}      # decl id -> True for locals/params that are C pointers standing for C++ references
        self.locals = {}        # decl id -> C name
        self.bindings = {}      # BindingDecl id -> C expr
        self.lambdas = {}       # VarDecl id (lambda variable) -> lambda info
        self.lambda_defs = []   # emitted C text of lambdas (defined before the function)
        self.lambda_n = 0
        self.is_method = node.get('kind') in ('CXXMethodDecl', 'CXXConstructorDecl', 'CXXConversionDecl')
        self.self_name = 'self'
        self.ret_is_ref = False
        self.names_used = set()
        self.cap_map = {}       # inside a lambda: decl id -> C expr of the capture cell
        self.labels = set()
        self.instances = []
        self.brk = []           # stack of enclosing breakable constructs: ('loop',), ('switch',), ('cut', k)
        self.file = (node.get('loc') or {}).get('file')
        self._src = None

    # ------------------------------------------------------------------ helpers
    def loc(self, n):
        r = n.get('range', {}).get('begin', {})
        l = r.get('line') or r.get('expansionLoc', {}).get('line') or r.get('spellingLoc', {}).get('line')
        return 'line %s' % l if l else '?'

    def bad(self, what, n):
        raise Unsupported('%s: %s (%s, %s)' % (self.cname, what, n.get('kind'), self.loc(n)))

    def src_text(self, n):
        """source text of expression node n (None if it comes from a macro or the file is unknown)"""
        r = n.get('range', {})
        b, e = r.get('begin', {}), r.get('end', {})
        if 'offset' not in b or 'offset' not in e or self.file is None:
            return None
        if self._src is None:
            try:
                self._src = open(self.file, 'rb').read()
            except OSError:
                return None
        return self._src[b['offset']:e['offset'] + e.get('tokLen', 0)].decode('utf-8', 'replace')

    def qual_hint(self, n):
        """(namespace qualifier written at the call site, cname of the calling function)"""
        t = self.src_text(n) or ''
        m = re.match(r'^\s*((?:\w+::)+)\w+', t)
        return (m.group(1) if m else '', self.cname.split('__lambda')[0])

    def targs_hint(self, n):
        t = self.src_text(n)
        if t is None:
            return None
        m = re.search(r'<\s*([^<>]*)\s*>\s*$', t.strip())
        return m.group(1).strip() if m else ''

    def tmp(self, ctype, expr):
        if self.cond_depth > 0:
            raise Unsupported('%s: temporary needed inside conditionally evaluated expression: %s' % (self.cname, expr[:80]))
        self.tmpn += 1
        name = '__t%d' % self.tmpn
        self.pre[-1].append('%s %s = %s;' % (ctype, name, expr))
        return name

    def klass(self, n):
        try:
            return map_type(qt(n)).klass
        except Unsupported:
            return None

    def is_lvalue(self, n):
        return n.get('valueCategory') in ('lvalue', 'xvalue') and strip_temp(n)

    def addr(self, n, ctype=None):
        """C expression for the address of the object denoted by expression node n (hoisting prvalues)."""
        s = strip(n)
        e = self.e(n)
        if self._addressable(n):
            if e.startswith('(*') and e.endswith(')') and balanced(e[2:-1]):
                return e[2:-1]
            return '&' + e
        ct = ctype or map_type(qt(n)).c
        return '&' + self.tmp(ct, e)

    def _addressable(self, n):
        s = n
        while True:
            k = s.get('kind')
            if k in ('MaterializeTemporaryExpr', 'CXXBindTemporaryExpr'):
                return False if not self._addressable_inner(s) else True
            if k in TRANSPARENT or k == 'ParenExpr' or (k == 'ImplicitCastExpr' and s.get('castKind') in PASS_CASTS + ('DerivedToBase', 'UncheckedDerivedToBase')) \
                    or (k in ('CXXStaticCastExpr', 'CXXConstCastExpr') and s.get('castKind') == 'NoOp'):
                s = s['inner'][-1]; continue
            break
        k = s.get('kind')
        if k in ('DeclRefExpr', 'ArraySubscriptExpr', 'CXXThisExpr'):
            return True
        if k == 'MemberExpr':
            return s.get('isArrow') or self._addressable(s['inner'][0])
        if k == 'UnaryOperator' and s.get('opcode') == '*':
            return True
        if k == 'CallExpr':
            # std::move(x) / std::forward
            c = strip(s['inner'][0])
            if c.get('kind') == 'DeclRefExpr' and c['referencedDecl'].get('name') in ('move', 'forward'):
                return self._addressable(s['inner'][1])
            # call returning a reference -> we return pointer, deref is addressable
            return self._returns_ref(s)
        if k == 'CXXMemberCallExpr':
            me = strip(s['inner'][0])
            obj = me['inner'][0] if me.get('inner') else None
            oq = qt(obj) if obj else ''
            try:
                ok = map_type(strip_cv(oq).rstrip('*').strip() if me.get('isArrow') else oq).klass
            except Unsupported:
                ok = None
            if ok in ('agg', 'url', 'comp', 'base', 'usp'):
                return self._returns_ref(s)     # extracted member function returning a reference: (*f(...)) is an lvalue
            return self._returns_ref(s) and self._op_lvalue(s)
        if k == 'CXXOperatorCallExpr':
            return self._returns_ref(s) and self._op_lvalue(s)
        return False

    def _addressable_inner(self, s):
        return False

    def _returns_ref(self, s):
        return s.get('valueCategory') == 'lvalue'

    def _op_lvalue(self, s):
        # operator[] on string / array / optional deref yield lvalues we can address; others hoist
        if s['kind'] == 'CXXOperatorCallExpr':
            c = strip(s['inner'][0])
            nm = c.get('referencedDecl', {}).get('name', '')
            return nm in ('operator[]', 'operator*', 'operator->', 'operator=', 'operator+=')
        me = strip(s['inner'][0])
        return me.get('name') in ('value', 'front', 'back', 'at', 'operator*', 'append', 'insert', 'erase', 'replace', 'assign')

    # ------------------------------------------------------------------ types
    def ctype_of(self, n):
        return map_type(qt(n))

    def decl_text(self, ct, name):
        if ct.ref:
            return '%s *%s' % (ct.c, name)
        return '%s %s%s' % (ct.c, name, ct.arr)

    # ------------------------------------------------------------------ expressions
    def e(self, n):
        k = n['kind']
        m = getattr(self, 'e_' + k, None)
        if m is None:
            self.bad('unsupported expression node', n)
        return m(n)

    def e_ParenExpr(self, n):
        return '(' + self.e(n['inner'][0]) + ')'

    def _transparent(self, n):
        return self.e(n['inner'][-1])
    e_ConstantExpr = e_ExprWithCleanups = e_MaterializeTemporaryExpr = e_CXXBindTemporaryExpr = _transparent
    e_SubstNonTypeTemplateParmExpr = e_FullExpr = _transparent

    def e_IntegerLiteral(self, n):
        v = n['value']; t = n['type']['qualType']
        suf = {'unsigned long': 'UL', 'unsigned int': 'U', 'long': 'L', 'unsigned long long': 'ULL',
               'long long': 'LL'}.get(t, '')
        return v + suf

    def e_CharacterLiteral(self, n):
        t = n['type']['qualType']
        if t == 'char':
            return '((char)%d)' % n['value']
        return '((%s)%d)' % (map_type(t).c, n['value'])

    def e_CXXBoolLiteralExpr(self, n):
        return '1' if n['value'] else '0'

    def e_CXXNullPtrLiteralExpr(self, n):
        return '((void*)0)'

    def e_GNUNullExpr(self, n):
        return '((void*)0)'

    def e_StringLiteral(self, n):
        return n['value']

    def e_FloatingLiteral(self, n):
        self.bad('floating literal', n)

    def e_CXXThisExpr(self, n):
        if 'self' in self.cap_map:
            return self.cap_map['self']
        return self.self_name

    def e_CXXDefaultArgExpr(self, n):
        # default argument: clang does not inline its expression here; handled per call site
        return None

    def e_CXXScalarValueInitExpr(self, n):
        return '((%s)0)' % self.ctype_of(n).c

    def e_ImplicitValueInitExpr(self, n):
        ct = self.ctype_of(n)
        return '((%s)0)' % ct.c if ct.klass is None and not ct.arr else '{0}'

    def e_UnaryExprOrTypeTraitExpr(self, n):
        if n.get('name') != 'sizeof':
            self.bad('type trait', n)
        if 'argType' in n:
            ct = map_type(n['argType'].get('desugaredQualType', n['argType']['qualType']))
            return 'sizeof(%s%s)' % (ct.c, ct.arr)
        return 'sizeof(%s)' % self.e(n['inner'][0])

    def e_DeclRefExpr(self, n):
        rd = n['referencedDecl']; name = rd.get('name', ''); kind = rd['kind']; rid = rd.get('id')
        if rid in self.cap_map:
            return self.cap_map[rid]
        if kind == 'BindingDecl':
            if rid not in self.bindings:
                self.bad('unknown binding ' + name, n)
            return self.bindings[rid]
        if kind == 'EnumConstantDecl':
            et = rd['type']['qualType']
            if et != '_MM_CMPINT_ENUM':      # Intel-defined predicate constants: fixed values in model/simd.h
                self.ctx.need_enums.add((et, name))
            return 'E_%s_%s' % (re.sub(r'[^A-Za-z0-9]+', '_', et), name)
        if kind in ('FunctionDecl', 'CXXMethodDecl'):
            sig = rd['type']['qualType']
            c = self.ctx.resolve_free(name, sig, self.targs_hint(n), self.qual_hint(n))
            if c is None:
                self.bad('call of function outside registry/model: %s : %s' % (name, sig), n)
            self.ctx.callees.add(c)
            return c
        if kind in ('ParmVarDecl', 'VarDecl'):
            if rid in self.locals:
                cn = self.locals[rid]
                if self.ptr_vars.get(rid):
                    return '(*%s)' % cn
                return cn
            # non-local object
            if name == 'npos':
                return '((size_t)-1)'
            q = qt(n)
            if name == 'is_forbidden_domain_code_point_table' and 'std::array' not in q:
                name = name + '__idna'      # ada::idna has its own plain-array copy of the table with the same name
            self.ctx.need_globals.add((name, q))
            return 'G_' + name
        if kind == 'NonTypeTemplateParmDecl':
            self.bad('unsubstituted template parameter ' + name, n)
        self.bad('DeclRef to ' + kind, n)

    def e_UnaryOperator(self, n):
        op = n['opcode']; sub = n['inner'][0]
        if op == '&':
            return self.addr(sub)
        if op == '*':
            s = self.e(sub)
            if s.startswith('&') and balanced(s[1:]):
                return s[1:]
            return '(*%s)' % s
        if op == '__extension__':
            return self.e(sub)
        s = self.e(sub)
        if n.get('isPostfix'):
            return '(%s%s)' % (s, op)
        return '(%s%s)' % (op, s)

    def e_BinaryOperator(self, n):
        op = n['opcode']; a, b = n['inner']
        if op in ('&&', '||'):
            sa = self.e(a)
            self.cond_depth += 1
            try:
                sb = self.e(b)
            finally:
                self.cond_depth -= 1
            return '(%s %s %s)' % (sa, op, sb)
        if op == ',':
            return '(%s, %s)' % (self.e(a), self.e(b))
        if op == '=':
            ka = self.klass(a)
            if ka in ('arr',) and False:
                pass
        return '(%s %s %s)' % (self.e(a), op, self.e(b))

    e_CompoundAssignOperator = e_BinaryOperator

    def e_ConditionalOperator(self, n):
        c, a, b = n['inner']
        sc = self.e(c)
        self.cond_depth += 1
        try:
            sa = self.e(a); sb = self.e(b)
        finally:
            self.cond_depth -= 1
        return '(%s ? %s : %s)' % (sc, sa, sb)

    def e_ArraySubscriptExpr(self, n):
        return '%s[%s]' % (self.e(n['inner'][0]), self.e(n['inner'][1]))

    def e_InitListExpr(self, n):
        ct = self.ctype_of(n)
        items = [self.e(x) for x in n.get('inner', [])]
        if ct.klass == 'arr':
            return '{{%s}}' % (', '.join(items) if items else '0')
        if ct.c in ('m128i_t', 'm512i_t'):
            if items not in ([], ['0'], ['0LL'], ['((long long)(0))']):
                self.bad('vector initialiser other than zero', n)
            return '{{0}}'
        if ct.klass in ('sv',) and len(items) == 2:
            return '((sv_t){%s, %s})' % tuple(items)
        if not items:
            return '{0}'
        if ct.arr or ct.klass in ('pair', 'comp'):
            return '{%s}' % ', '.join(items)
        if len(items) == 1:
            return items[0]
        return '{%s}' % ', '.join(items)

    # ---- casts
    def _cast(self, n):
        ck = n.get('castKind'); sub = n['inner'][-1]
        if ck in PASS_CASTS:
            return self.e(sub)
        if ck == 'ArrayToPointerDecay':
            s = self.e(sub)
            return s
        if ck in ('DerivedToBase', 'UncheckedDerivedToBase'):
            # url_aggregator / url -> url_base: the C structs hold the base as first member `base`
            s = self.e(sub)
            tq = qt(n)
            if 'url_base' not in tq:
                self.bad('derived-to-base cast to ' + tq, n)
            if tq.strip().endswith('*'):
                if s.startswith('&') and balanced(s[1:]):
                    return '&%s.base' % s[1:]
                return '(&(%s)->base)' % s
            return '%s.base' % s
        if ck in ('IntegralToBoolean', 'PointerToBoolean'):
            return '((%s) != 0)' % self.e(sub)
        if ck in ('IntegralCast', 'BitCast', 'NullToPointer', 'PointerToIntegral', 'IntegralToPointer',
                  'BooleanToSignedIntegral'):
            ct = self.ctype_of(n)
            if ct.c in ('m128i_t', 'm512i_t'):
                return self.e(sub)       # bit cast between vector types of the same width: same byte-lane struct in the model
            return '((%s)(%s))' % (ct.c, self.e(sub))
        if ck == 'ToVoid':
            return '((void)(%s))' % self.e(sub)
        if ck == 'BuiltinFnToFnPtr':
            return self.e(sub)
        self.bad('cast kind %s' % ck, n)

    e_ImplicitCastExpr = e_CStyleCastExpr = e_CXXStaticCastExpr = e_CXXReinterpretCastExpr = _cast
    e_CXXConstCastExpr = _cast

    def e_CXXFunctionalCastExpr(self, n):
        ck = n.get('castKind')
        if ck in ('ConstructorConversion',):
            return self.e(n['inner'][-1])
        return self._cast(n)

    # ---- member access
    def e_MemberExpr(self, n):
        base = n['inner'][0]
        name = n['name']
        bk = self.klass(base) if not n.get('isArrow') else None
        bs = self.e(base)
        if n.get('isArrow'):
            if bs.startswith('&') and balanced(bs[1:]):
                return '%s.%s' % (bs[1:], name)
            return '%s->%s' % (bs, name)
        return '%s.%s' % (bs, name)

    # ---- calls
    def args(self, nodes):
        out = []
        for a in nodes:
            if a.get('kind') == 'CXXDefaultArgExpr':
                out.append(None)
            else:
                out.append(a)
        return out

    def default_from_decl(self, cname, i):
        """default argument read from the declarations of the callee in the AST (the definition usually carries none): every
        declaration of that name with the same number of parameters that has a default for parameter i must agree, and the
        default must be a literal (nullptr, integer, boolean)"""
        from .registry import R
        from . import ast as A_
        r = R.get(cname)
        if r is None:
            return None
        try:
            ex = self.ctx.extractor
            node = ex.node(cname)
            decls = A_.find_decls(ex.cfg, r['filt'], A_.FUNC_KINDS, src=ex.src)
        except Exception:
            return None
        np = len([p for p in node.get('inner', []) if p.get('kind') == 'ParmVarDecl'])
        found = set()
        for d in decls:
            if d.get('name') != r['name']:
                continue
            pv = [p for p in d.get('inner', []) or [] if p.get('kind') == 'ParmVarDecl']
            if len(pv) != np or i >= len(pv):
                continue
            init = [c for c in pv[i].get('inner', []) or [] if isinstance(c, dict) and 'Expr' in c.get('kind', '') or isinstance(c, dict) and 'Literal' in c.get('kind', '')]
            if not init:
                continue
            e = strip(init[0])
            if e.get('kind') == 'ImplicitCastExpr' and e.get('castKind') == 'NullToPointer':
                e = strip(e['inner'][-1])
            if e.get('kind') in ('CXXNullPtrLiteralExpr', 'GNUNullExpr', 'IntegerLiteral', 'CXXBoolLiteralExpr'):
                found.add(self.e(e))
            else:
                return None
        if len(found) == 1:
            return found.pop()
        return None

    def pass_arg(self, a, ptype):
        mode, ct = pass_mode(ptype)
        if mode == 'ptr':
            return self.addr(a, ct.c)
        return self.e(a)

    def e_CallExpr(self, n):
        callee = strip(n['inner'][0]); argn = n['inner'][1:]
        if callee.get('kind') != 'DeclRefExpr':
            self.bad('indirect call', n)
        rd = callee['referencedDecl']; name = rd.get('name', ''); sig = rd['type']['qualType']
        from . import stdmodel
        r = stdmodel.free_call(self, name, sig, argn, n)
        if r is not None:
            return r
        cname = self.e(callee)
        params, _ = parse_fn_params(sig)
        outs = []
        for i, a in enumerate(argn):
            if a.get('kind') == 'CXXDefaultArgExpr':
                d = stdmodel.default_arg(cname, i)
                if d is None:
                    d = self.default_from_decl(cname, i)
                if d is None:
                    self.bad('default argument %d of %s' % (i, name), n)
                outs.append(d); continue
            outs.append(self.pass_arg(a, params[i]))
        call = '%s(%s)' % (cname, ', '.join(outs))
        if n.get('valueCategory') == 'lvalue':
            return '(*%s)' % call
        return call

    def e_CXXMemberCallExpr(self, n):
        me = strip(n['inner'][0]); argn = n['inner'][1:]
        if me.get('kind') != 'MemberExpr':
            self.bad('member call through non-member expr', n)
        obj = me['inner'][0]; name = me['name']
        oq = qt(obj)
        if me.get('isArrow'):
            # pointer to object
            oq2 = strip_cv(oq)
            oq2 = oq2[:-1].strip() if oq2.endswith('*') else oq2
        else:
            oq2 = oq
        try:
            ok = map_type(oq2).klass
        except Unsupported:
            ok = None
        from . import stdmodel
        r = stdmodel.member_call(self, ok, name, obj, me.get('isArrow', False), argn, n)
        if r is not None:
            return r
        # registry method
        nargs = len(argn)
        res = self.ctx.resolve_method(ok, name, nargs, self.targs_hint(me))
        if res is None:
            self.bad('member call outside registry/model: %s::%s/%d' % (oq2, name, nargs), n)
        cname, sig = res
        self.ctx.callees.add(cname)
        params, _ = parse_fn_params(sig)
        if me.get('isArrow'):
            po = self.e(obj)
        else:
            po = self.addr(obj)
        outs = [po]
        for i, a in enumerate(argn):
            if a.get('kind') == 'CXXDefaultArgExpr':
                d = stdmodel.default_arg(cname, i)
                if d is None:
                    d = self.default_from_decl(cname, i)
                if d is None:
                    self.bad('default argument %d of %s' % (i, name), n)
                outs.append(d); continue
            outs.append(self.pass_arg(a, params[i]))
        call = '%s(%s)' % (cname, ', '.join(outs))
        if n.get('valueCategory') == 'lvalue':
            return '(*%s)' % call
        return call

    def e_CXXOperatorCallExpr(self, n):
        callee = strip(n['inner'][0]); ops = n['inner'][1:]
        opname = callee.get('referencedDecl', {}).get('name', '')
        from . import stdmodel
        r = stdmodel.operator_call(self, opname, ops, n, callee)
        if r is not None:
            return r
        self.bad('operator call %s on %s' % (opname, qt(ops[0]) if ops else '?'), n)

    def e_CXXConstructExpr(self, n):
        from . import stdmodel
        r = stdmodel.construct(self, n)
        if r is not None:
            return r
        self.bad('constructor of %s with %d args' % (qt(n), len(n.get('inner', []))), n)

    def e_CXXTemporaryObjectExpr(self, n):
        return self.e_CXXConstructExpr(n)

    def e_CXXRewrittenBinaryOperator(self, n):
        return self.e(n['inner'][0])

    def e_LambdaExpr(self, n):
        self.bad('lambda expression in unsupported position', n)

    def e_CXXNewExpr(self, n):
        from . import stdmodel
        return stdmodel.new_expr(self, n)

    def e_CXXDeleteExpr(self, n):
        from . import stdmodel
        return stdmodel.delete_expr(self, n)

    def e_PredefinedExpr(self, n):
        return '""'

    # ------------------------------------------------------------------ lambdas
    def make_lambda(self, lam, hint='l'):
        """closure-convert a LambdaExpr; returns dict(fn=cname, ret, params)"""
        rec = [c for c in lam['inner'] if c.get('kind') == 'CXXRecordDecl'][0]
        meth = [c for c in rec['inner'] if c.get('kind') == 'CXXMethodDecl' and c.get('name') == 'operator()']
        if not meth:
            self.bad('generic lambda', lam)
        meth = meth[0]
        fields = [c for c in rec['inner'] if c.get('kind') == 'FieldDecl']
        # capture initialisers follow the record in lam['inner'] (one expr per field), the body is last
        inits = [c for c in lam['inner'][1:] if c.get('kind') != 'CompoundStmt']
        self.lambda_n += 1
        fname = '%s__lambda%d' % (self.cname, self.lambda_n)
        sub = Tr(self.ctx, fname, meth, {})
        sub.file = self.file
        sub.locals = {}
        sub.is_method = False
        # captures: walk the body for DeclRefExpr to outer locals / this
        cap_map = {}
        cells = []
        assigns = []
        body = [c for c in meth['inner'] if c.get('kind') == 'CompoundStmt'][0]
        from .ast import walk
        for x in walk(body):
            if x.get('kind') == 'DeclRefExpr':
                rid = x['referencedDecl'].get('id')
                if rid in self.locals and rid not in cap_map:
                    cn = self.locals[rid]
                    # determine by-copy or by-reference capture from the field type, default: by reference
                    ct = map_type(x['referencedDecl']['type'].get('desugaredQualType', x['referencedDecl']['type']['qualType']))
                    cell = '%s__cap_%s' % (fname, cn)
                    byref = self._captured_by_ref(fields, x)
                    if byref or ct.klass in ('str', 'agg', 'url', 'arr'):
                        cells.append('static %s *%s;' % (ct.c, cell))
                        src = cn if self.ptr_vars.get(rid) else '&' + cn
                        assigns.append('%s = %s;' % (cell, src))
                        cap_map[rid] = '(*%s)' % cell
                    else:
                        cells.append('static %s %s%s;' % (ct.c, cell, ct.arr))
                        src = '(*%s)' % cn if self.ptr_vars.get(rid) else cn
                        assigns.append('%s = %s;' % (cell, src))
                        cap_map[rid] = cell
                elif rid in self.cap_map and rid not in cap_map:
                    cap_map[rid] = self.cap_map[rid]
            elif x.get('kind') == 'CXXThisExpr' and 'self' not in cap_map:
                cell = '%s__cap_self' % fname
                selft = self._self_type()
                cells.append('static %s *%s;' % (selft, cell))
                assigns.append('%s = (%s *)%s;' % (cell, selft, self.e_CXXThisExpr(x)))
                cap_map['self'] = cell
        sub.cap_map = cap_map
        text = sub.function(static=True)
        self.lambda_defs.extend(sub.lambda_defs)
        self.lambda_defs.append('\n'.join(cells) + '\n' + text)
        for a in assigns:
            self.pre[-1].append(a)
        params, ret = parse_fn_params(meth['type']['qualType'])
        return dict(fn=fname, sig=meth['type']['qualType'], params=params)

    def _captured_by_ref(self, fields, x):
        # a by-reference capture has a field of reference type; we cannot map fields to variables by name
        # (fields are unnamed), so: if any field has reference type and matches the variable's type -> by ref
        vt = strip_cv(x['referencedDecl']['type'].get('desugaredQualType', x['referencedDecl']['type']['qualType'])).rstrip('&').strip()
        for f in fields:
            ft = f['type'].get('desugaredQualType', f['type']['qualType'])
            if ft.strip().endswith('&') and strip_cv(ft.strip().rstrip('&')) == vt:
                return True
        return False

    def _self_type(self):
        # type of *this from the method's parent: recorded by registry
        return getattr(self, 'self_ctype', 'struct url_aggregator')

    # ------------------------------------------------------------------ statements
    def emit(self, line, ind):
        self.out.append('  ' * ind + line)

    def flush_pre(self, ind):
        for p in self.pre[-1]:
            self.emit(p, ind)
        self.pre[-1] = []

    def with_pre(self, fn, ind):
        """evaluate fn() (expression translation) collecting hoisted temporaries; emit them, return text"""
        self.pre.append([])
        try:
            s = fn()
        finally:
            hoisted = self.pre.pop()
        for p in hoisted:
            self.emit(p, ind)
        return s

    def s(self, n, ind):
        k = n['kind']
        m = getattr(self, 's_' + k, None)
        if m is not None:
            return m(n, ind)
        # expression statement
        s = self.with_pre(lambda: self.e(n), ind)
        if s is not None:
            self.emit(s + ';', ind)

    def s_CompoundStmt(self, n, ind):
        self.emit('{', ind)
        for c in n.get('inner', []):
            self.s(c, ind + 1)
        self.emit('}', ind)

    def s_NullStmt(self, n, ind):
        pass

    def s_AttributedStmt(self, n, ind):
        for c in n['inner']:
            if c.get('kind', '').endswith('Attr'):
                continue
            self.s(c, ind)

    def s_LabelStmt(self, n, ind):
        self.emit('%s: ;' % n['name'], ind)
        for c in n.get('inner', []):
            self.s(c, ind)

    def s_GotoStmt(self, n, ind):
        # clang JSON gives targetLabelDeclId; the label name is found via the function's label table
        self.emit('goto %s;' % self.label_names[n['targetLabelDeclId']], ind)

    def s_BreakStmt(self, n, ind):
        if self.brk and self.brk[-1][0] == 'cut':
            self.emit('goto __after_loop%d;' % self.brk[-1][1], ind)
        else:
            self.emit('break;', ind)

    def s_ContinueStmt(self, n, ind):
        for b in reversed(self.brk):
            if b[0] == 'switch':
                continue
            if b[0] == 'cut':
                self.emit('goto __cont_loop%d;' % b[1], ind)
            else:
                self.emit('continue;', ind)
            return
        self.emit('continue;', ind)

    def s_ReturnStmt(self, n, ind):
        inner = n.get('inner', [])
        if not inner:
            self.emit('return;', ind); return
        if self.ret_is_ref:
            s = self.with_pre(lambda: self.addr(inner[0]), ind)
        else:
            s = self.with_pre(lambda: self.e(inner[0]), ind)
            if s.startswith('{'):
                s = '(%s)%s' % (self.ret_ctype.c, s)
        self.emit('return %s;' % s, ind)

    def blk(self, n, ind):
        if n['kind'] == 'CompoundStmt':
            self.s(n, ind)
        else:
            self.emit('{', ind); self.s(n, ind + 1); self.emit('}', ind)

    def is_abort_block(self, n):
        from .ast import walk
        for x in walk(n):
            if x.get('kind') == 'CallExpr':
                c = strip(x['inner'][0])
                if c.get('kind') == 'DeclRefExpr' and c['referencedDecl'].get('name') == 'abort':
                    return True
        return False

    def s_IfStmt(self, n, ind):
        inner = [c for c in n['inner']]
        if n.get('hasInit'):
            self.bad('if with init', n)
        if n.get('hasVar'):
            # if (T v = init) ...  ==>  { T v = init; if (v-as-bool) ... }
            self.emit('{', ind)
            self.s(inner[0], ind + 1)
            n2 = dict(n); n2['hasVar'] = False; n2['inner'] = inner[1:]
            self.s_IfStmt(n2, ind + 1)
            self.emit('}', ind)
            return
        cond = inner[0]
        # `if constexpr`: the condition is a ConstantExpr with a value; keep only the live branch
        if n.get('isConstexpr') or (cond.get('kind') == 'ConstantExpr' and 'value' in cond):
            val = cond.get('value')
            if val in ('true', 'false', True, False):
                live = inner[1] if val in ('true', True) else (inner[2] if len(inner) > 2 else None)
                if live is not None:
                    self.s(live, ind)
                return
        if self.is_abort_block(inner[1]) and len(inner) == 2:
            # expansion of ADA_ASSERT_TRUE / ADA_ASSERT_EQUAL: if (!(COND)) { ...; abort(); }
            c = self.with_pre(lambda: self.e(cond), ind)
            self.emit('__CPROVER_assert(!(%s), "ADA_ASSERT %s %s");' % (c, self.cname, self.loc(n)), ind)
            return
        c = self.with_pre(lambda: self.e(cond), ind)
        self.emit('if (%s)' % c, ind)
        self.blk(inner[1], ind)
        if len(inner) > 2:
            self.emit('else', ind)
            self.blk(inner[2], ind)

    def loopspec(self, ind):
        sp = self.spec.get('loop %d' % self.loopn, [])
        for l in sp:
            self.emit(l, ind)
        self.loopn += 1
        return bool(sp)

    def cutspec(self):
        """a loop whose spec section is `@loop N` with lines `cut-havoc: a, b` and `cut-invariant: EXPR` is replaced by the
        assume/assert encoding of the Hoare loop rule (base case, arbitrary iteration, invariant re-established)"""
        sp = self.spec.get('loop %d' % self.loopn, [])
        hv, inv, prop = [], [], []
        for l in sp:
            l = l.strip()
            if l.startswith('cut-havoc:'):
                hv += [x.strip() for x in l[len('cut-havoc:'):].split(',') if x.strip()]
            elif l.startswith('cut-invariant:'):
                inv.append(l[len('cut-invariant:'):].strip())
            elif l.startswith('cut-property:'):
                # an invariant that IS the property (a record invariant of the object being built): `text :: expression`
                t, _, e = l[len('cut-property:'):].partition('::')
                prop.append((t.strip(), e.strip()))
        if not inv and not hv and not prop:
            return None
        k = self.loopn
        self.loopn += 1
        self.cut_props = getattr(self, 'cut_props', {})
        self.cut_props[k] = prop
        return k, hv, ' && '.join('(%s)' % x for x in inv + [e for _, e in prop]) or '1'

    def cut_prologue(self, k, hv, inv, ind):
        self.emit('/* loop %d cut: base case, then one arbitrary iteration from an arbitrary state satisfying the invariant */' % k, ind)
        self.emit('__CPROVER_assert(%s, "loop %d of %s: invariant holds on entry");' % (inv, k, self.cname), ind)
        for v in hv:
            self.emit('__CPROVER_havoc_object(&%s);' % v, ind)
        self.emit('__CPROVER_assume(%s);' % inv, ind)

    def cut_epilogue(self, k, inv, ind):
        for t, e in getattr(self, 'cut_props', {}).get(k, []):
            self.emit('__CPROVER_assert(%s, "postcondition: %s (record invariant kept by every iteration of loop %d of %s)");' % (e, t.replace('"', "'"), k, self.cname), ind)
        self.emit('__CPROVER_assert(%s, "loop %d of %s: invariant preserved by an arbitrary iteration");' % (inv, k, self.cname), ind)
        self.emit('__CPROVER_assume(0);', ind)

    def cond_no_hoist(self, c, what):
        self.pre.append([])
        try:
            s = self.e(c)
            if self.pre[-1]:
                raise Unsupported('%s: temporary needed in %s condition' % (self.cname, what))
        finally:
            self.pre.pop()
        return s

    def s_WhileStmt(self, n, ind):
        inner = n['inner']
        cond, body = inner[-2], inner[-1]
        cut = self.cutspec()
        if cut:
            k, hv, inv = cut
            self.emit('{', ind)
            self.cut_prologue(k, hv, inv, ind + 1)
            self.emit('if (%s)' % self.cond_no_hoist(cond, 'while'), ind + 1)
            self.emit('{', ind + 1)
            self.brk.append(('cut', k))
            self.blk(body, ind + 2)
            self.brk.pop()
            self.emit('__cont_loop%d: ;' % k, ind + 2)
            self.cut_epilogue(k, inv, ind + 2)
            self.emit('}', ind + 1)
            self.emit('__after_loop%d: ;' % k, ind + 1)
            self.emit('}', ind)
            return
        self.emit('while (%s)' % self.cond_no_hoist(cond, 'while'), ind)
        self.loopspec(ind)
        self.brk.append(('loop',))
        self.blk(body, ind)
        self.brk.pop()

    def s_DoStmt(self, n, ind):
        body, cond = n['inner'][0], n['inner'][1]
        c = strip(cond)
        # do { ... } while (0): not a loop
        if c.get('kind') == 'IntegerLiteral' and c.get('value') == '0' or \
           (cond.get('kind') == 'ImplicitCastExpr' and strip(cond['inner'][0]).get('value') == '0') or \
           (c.get('kind') == 'CXXBoolLiteralExpr' and not c.get('value')):
            self.blk(body, ind)
            return
        cut = self.cutspec()
        if cut:
            k, hv, inv = cut
            self.emit('{', ind)
            self.cut_prologue(k, hv, inv, ind + 1)
            self.brk.append(('cut', k))
            self.blk(body, ind + 1)
            self.brk.pop()
            self.emit('__cont_loop%d: ;' % k, ind + 1)
            self.emit('if (%s)' % self.cond_no_hoist(cond, 'do-while'), ind + 1)
            self.emit('{', ind + 1)
            self.cut_epilogue(k, inv, ind + 2)
            self.emit('}', ind + 1)
            self.emit('__after_loop%d: ;' % k, ind + 1)
            self.emit('}', ind)
            return
        self.emit('do', ind)
        self.loopspec(ind)
        self.brk.append(('loop',))
        self.blk(body, ind)
        self.brk.pop()
        self.emit('while (%s);' % self.cond_no_hoist(cond, 'do-while'), ind)

    def s_ForStmt(self, n, ind):
        init, condvar, cond, inc, body = n['inner']
        self.emit('{', ind)
        if init and init.get('kind'):
            self.s(init, ind + 1)
        c = self.cond_no_hoist(cond, 'for') if cond and cond.get('kind') else ''
        i = self.cond_no_hoist(inc, 'for-increment') if inc and inc.get('kind') else ''
        self.emit('for (; %s; %s)' % (c, i), ind + 1)
        self.loopspec(ind + 1)
        self.brk.append(('loop',))
        self.blk(body, ind + 1)
        self.brk.pop()
        self.emit('}', ind)

    def s_CXXForRangeStmt(self, n, ind):
        # inner: [init?], range DeclStmt, begin DeclStmt, end DeclStmt, cond, inc, loopvar DeclStmt, body
        inner = n['inner']
        if len(inner) == 8:
            if inner[0] and inner[0].get('kind'):
                self.bad('range-for with init', n)
            inner = inner[1:]
        rng, beg, end, cond, inc, var, body = inner
        self.emit('{', ind)
        self.s(rng, ind + 1); self.s(beg, ind + 1); self.s(end, ind + 1)
        self.emit('for (; %s; %s)' % (self.cond_no_hoist(cond, 'range-for'), self.cond_no_hoist(inc, 'range-for')), ind + 1)
        self.loopspec(ind + 1)
        self.emit('{', ind + 1)
        self.s(var, ind + 2)
        self.s(body, ind + 2)
        self.emit('}', ind + 1)
        self.emit('}', ind)

    def s_SwitchStmt(self, n, ind):
        inner = n['inner']
        cond, body = inner[-2], inner[-1]
        self.emit('switch (%s)' % self.with_pre(lambda: self.e(cond), ind), ind)
        self.brk.append(('switch',))
        self.blk(body, ind)
        self.brk.pop()

    def s_CaseStmt(self, n, ind):
        inner = n['inner']
        self.emit('case %s:' % self.e(inner[0]), ind)
        for c in inner[1:]:
            self.s(c, ind + 1)

    def s_DefaultStmt(self, n, ind):
        self.emit('default:', ind)
        for c in n['inner']:
            self.s(c, ind + 1)

    def s_DeclStmt(self, n, ind):
        for v in n['inner']:
            k = v['kind']
            if k == 'VarDecl':
                self.vardecl(v, ind)
            elif k == 'DecompositionDecl':
                self.decomposition(v, ind)
            elif k in ('TypedefDecl', 'TypeAliasDecl', 'StaticAssertDecl', 'UsingDecl', 'CXXRecordDecl', 'EnumDecl'):
                if k == 'CXXRecordDecl' and not v.get('isImplicit'):
                    pass
            else:
                self.bad('declaration ' + k, v)

    def uniq(self, name):
        base = name; i = 1
        while name in self.names_used:
            i += 1; name = '%s_%d' % (base, i)
        self.names_used.add(name)
        return name

    def vardecl(self, v, ind):
        name = v.get('name', '')
        q = v['type'].get('desugaredQualType', v['type']['qualType'])
        ini = [x for x in v.get('inner', []) if 'Comment' not in x.get('kind', '') and not x.get('kind', '').endswith('Attr')]
        # lambda variables
        if ini and strip(ini[0]).get('kind') == 'LambdaExpr':
            info = self.with_pre(lambda: self.make_lambda(strip(ini[0]), name), ind)
            self.lambdas[v['id']] = info
            return
        ct = map_type(q)
        if v.get('constexpr') and ini:
            # constexpr locals that only feed `if constexpr` (already resolved by clang): try, and drop if not expressible;
            # a later run-time use of a dropped constant is an error (unknown DeclRef)
            self.pre.append([])
            try:
                self.e(ini[0])
            except Unsupported:
                self.pre.pop()
                return
            self.pre.pop()
        cn = self.uniq(name or '__anon')
        self.locals[v['id']] = cn
        if ct.ref:
            self.ptr_vars[v['id']] = True
            if not ini:
                self.bad('reference without initialiser', v)
            s = self.with_pre(lambda: self.addr(ini[0], ct.c), ind)
            self.emit('%s *%s = %s;' % (ct.c, cn, s), ind)
            return
        init = ''
        if ini:
            i0 = ini[0]
            s = self.with_pre(lambda: self.e(i0), ind)
            if s is not None:
                init = ' = ' + s
        elif ct.klass in ('str', 'u32str'):
            init = ' = {0}'
        self.emit('%s %s%s%s;' % (ct.c, cn, ct.arr, init), ind)

    def decomposition(self, v, ind):
        q = v['type'].get('desugaredQualType', v['type']['qualType'])
        ct = map_type(q)
        ini = [x for x in v['inner'] if x.get('kind') != 'BindingDecl']
        binds = [x for x in v['inner'] if x.get('kind') == 'BindingDecl']
        self.tmpn += 1
        cn = '__d%d' % self.tmpn
        s = self.with_pre(lambda: self.e(ini[0]), ind)
        self.emit('%s %s = %s;' % (ct.c, cn, s), ind)
        if ct.klass in ('tcr', 'fcr'):
            for b, f in zip(binds, ('ptr', 'ec')):
                self.bindings[b['id']] = '%s.%s' % (cn, f)
            return
        if ct.klass != 'pair':
            self.bad('structured binding of non-pair', v)
        for b, f in zip(binds, ('first', 'second')):
            self.bindings[b['id']] = '%s.%s' % (cn, f)

    # ------------------------------------------------------------------ function
    def collect_labels(self, body):
        from .ast import walk
        self.label_names = {}
        for x in walk(body):
            if x.get('kind') == 'LabelStmt':
                self.label_names[x['declId']] = x['name']

    def signature(self, static=False):
        d = self.node
        sig = d['type']['qualType']
        params, ret = parse_fn_params(sig)
        rct = map_type(ret) if ret else map_type('void')
        self.ret_is_ref = rct.ref
        self.ret_ctype = rct
        ps = []
        if self.is_method and not d.get('storageClass') == 'static':
            const = 'const ' if re.search(r'\)\s*const', sig) else ''
            ps.append('%s%s *self' % (const, self._self_type()))
        pnodes = [p for p in d.get('inner', []) if p.get('kind') == 'ParmVarDecl']
        for i, p in enumerate(pnodes):
            pt = p['type'].get('desugaredQualType', p['type']['qualType'])
            mode, ct = pass_mode(pt)
            cn = self.uniq(p.get('name') or '__p%d' % i)
            self.locals[p['id']] = cn
            if mode == 'ptr':
                self.ptr_vars[p['id']] = True
                const = 'const ' if (pt.strip().startswith('const ') and not ct.c.startswith('const')) else ''
                ps.append('%s%s *%s' % (const, ct.c, cn))
            else:
                if ct.arr:
                    ps.append('%s *%s' % (ct.c, cn))
                else:
                    ps.append('%s %s' % (ct.c, cn))
        rc = rct.c + (' *' if rct.ref else '')
        return '%s%s %s(%s)' % ('static ' if static else '', rc, self.cname, ', '.join(ps) or 'void')

    def function(self, static=False):
        d = self.node
        body = [c for c in d['inner'] if c.get('kind') == 'CompoundStmt'][0]
        self.collect_labels(body)
        head = self.signature(static)
        self.proto = head + ';'
        self.out.append(head)
        for l in self.spec.get('function', []):
            self.out.append(l)
        self.s(body, 0)
        return '\n'.join(self.out)


def balanced(s):
    d = 0
    for ch in s:
        if ch in '([':
            d += 1
        elif ch in ')]':
            d -= 1
            if d < 0:
                return False
        elif d == 0 and ch in ' +-*/<>=!&|?:,':
            return False
    return d == 0


def strip_temp(n):
    return True


def parse_spec(path):
    spec = {}; cur = None
    for line in open(path):
        if line.startswith('@'):
            cur = line[1:].strip(); spec.setdefault(cur, [])
        elif line.startswith('//#'):
            continue
        elif cur is not None and line.strip():
            spec[cur].append(line.rstrip())
    return spec
