"""Native replay, second generation: the obligation's C harness (with model/*.h and spec/*.h) is compiled as C, unchanged, and
linked against a C++ shim whose extern "C" functions have the *model's* signatures and call the REAL functions of /repo
(TU includes /repo/src/ada.cpp, g++ -fno-access-control).  So the same assertions that CBMC refuted are re-evaluated on
the real code with the counterexample's inputs.  Closed list of parameter / return kinds; anything else -> no replay."""
import re
from .common import REPO, VERIF
from .registry import R
from .cxx2c import parse_fn_params, pass_mode, Unsupported
from .ctypes_map import map_type

CXX_PRELUDE = r'''
#include <cstring>
#include <cstdio>
#include <string>
#include <string_view>
#include <array>
#include <optional>
typedef bool _Bool;
extern "C" {
typedef struct { const char *p; size_t n; } sv_t;
typedef struct { size_t n; char d[STR_CAP + 1]; } str_t;
typedef struct { _Bool has; sv_t v; } opt_sv_t;
typedef struct { _Bool has; str_t v; } opt_str_t;
typedef struct { _Bool has; uint16_t v; } opt_uint16_t;
typedef struct { _Bool has; _Bool v; } opt_Bool_t;
typedef struct { _Bool has; str_t v; } result_str_t_t;
typedef struct { uint16_t a[8]; } arr_uint16_t_8_t;
typedef struct { uint16_t a[8]; } arr_unsigned_short_8_t;
struct m_url_base { _Bool is_valid; _Bool has_opaque_path; int host_type; int type; };
struct m_url_components { uint32_t protocol_end, username_end, host_start, host_end, port, pathname_start, search_start, hash_start; };
struct m_url_aggregator { struct m_url_base base; str_t buffer; struct m_url_components components; };
struct m_url { struct m_url_base base; opt_str_t host; str_t path; opt_str_t query; opt_str_t hash; opt_uint16_t port; str_t username; str_t password; str_t non_special_scheme; };
int g_shim_overflow = 0;
}
static void to_model(str_t *d, const std::string &s) {
  if (s.size() > STR_CAP) { g_shim_overflow = 1; d->n = 0; d->d[0] = 0; return; }
  d->n = s.size(); std::memset(d->d, 0, sizeof d->d); std::memcpy(d->d, s.data(), s.size());
}
static str_t model_str(const std::string &s) { str_t r; to_model(&r, s); return r; }
static std::string real_str(const str_t *s) { return std::string(s->d, s->n); }
static void to_real(ada::url_aggregator &o, const m_url_aggregator *m) {
  o.is_valid = m->base.is_valid; o.has_opaque_path = m->base.has_opaque_path; o.host_type = (ada::url_host_type)m->base.host_type; o.type = (ada::scheme::type)m->base.type;
  o.buffer.assign(m->buffer.d, m->buffer.n);
  o.components.protocol_end = m->components.protocol_end; o.components.username_end = m->components.username_end; o.components.host_start = m->components.host_start;
  o.components.host_end = m->components.host_end; o.components.port = m->components.port; o.components.pathname_start = m->components.pathname_start;
  o.components.search_start = m->components.search_start; o.components.hash_start = m->components.hash_start;
}
static void from_real(m_url_aggregator *m, const ada::url_aggregator &o) {
  m->base.is_valid = o.is_valid; m->base.has_opaque_path = o.has_opaque_path; m->base.host_type = (int)o.host_type; m->base.type = (int)o.type;
  to_model(&m->buffer, o.buffer);
  m->components.protocol_end = o.components.protocol_end; m->components.username_end = o.components.username_end; m->components.host_start = o.components.host_start;
  m->components.host_end = o.components.host_end; m->components.port = o.components.port; m->components.pathname_start = o.components.pathname_start;
  m->components.search_start = o.components.search_start; m->components.hash_start = o.components.hash_start;
}
static void to_real(ada::url &o, const m_url *m) {
  o.is_valid = m->base.is_valid; o.has_opaque_path = m->base.has_opaque_path; o.host_type = (ada::url_host_type)m->base.host_type; o.type = (ada::scheme::type)m->base.type;
  if (m->host.has) o.host = real_str(&m->host.v); else o.host = std::nullopt;
  if (m->query.has) o.query = real_str(&m->query.v); else o.query = std::nullopt;
  if (m->hash.has) o.hash = real_str(&m->hash.v); else o.hash = std::nullopt;
  if (m->port.has) o.port = m->port.v; else o.port = std::nullopt;
  o.path = real_str(&m->path); o.username = real_str(&m->username); o.password = real_str(&m->password); o.non_special_scheme = real_str(&m->non_special_scheme);
}
static void from_real(m_url *m, const ada::url &o) {
  m->base.is_valid = o.is_valid; m->base.has_opaque_path = o.has_opaque_path; m->base.host_type = (int)o.host_type; m->base.type = (int)o.type;
  m->host.has = o.host.has_value(); to_model(&m->host.v, o.host.value_or(""));
  m->query.has = o.query.has_value(); to_model(&m->query.v, o.query.value_or(""));
  m->hash.has = o.hash.has_value(); to_model(&m->hash.v, o.hash.value_or(""));
  m->port.has = o.port.has_value(); m->port.v = o.port.value_or(0);
  to_model(&m->path, o.path); to_model(&m->username, o.username); to_model(&m->password, o.password); to_model(&m->non_special_scheme, o.non_special_scheme);
}
'''

SELF_M = {'agg': ('m_url_aggregator', 'ada::url_aggregator'), 'url': ('m_url', 'ada::url')}


class NoShim(Exception):
    pass


def c_sig_types(s):
    """model struct names inside extern "C" signatures of the shim"""
    return (s.replace('struct url_aggregator', 'struct m_url_aggregator').replace('struct url_components', 'struct m_url_components')
             .replace('struct url_base', 'struct m_url_base').replace('struct url ', 'struct m_url ').replace('struct url*', 'struct m_url*'))


def wrapper(ex, cname):
    """extern "C" wrapper with the model signature of cname that calls the real function"""
    from .cxx2c import Tr
    r = R[cname]
    node = ex.node(cname)
    tr = Tr(ex.ctx, cname, node, {})
    tr.instances = []
    if r['cls']:
        from .gen import SELF_T
        tr.self_ctype = r.get('selft') or SELF_T[r['cls']]
    sig = tr.signature()
    qsig = node['type']['qualType']
    params, ret = parse_fn_params(qsig)
    pn = [p for p in node.get('inner', []) if p.get('kind') == 'ParmVarDecl']
    pre, post, args = [], [], []
    is_method = node.get('kind') in ('CXXMethodDecl',) and node.get('storageClass') != 'static'
    const_method = bool(re.search(r'\)\s*const', qsig))
    if is_method:
        if r['cls'] not in SELF_M:
            raise NoShim('method of ' + str(r['cls']))
        mt, rt = SELF_M[r['cls']]
        pre.append('  %s o; to_real(o, (const %s *)self);' % (rt, mt))
        if not const_method:
            post.append('  from_real((%s *)self, o);' % mt)
    for i, (p, pt) in enumerate(zip(pn, params)):
        name = p.get('name') or '__p%d' % i
        pt_d = p['type'].get('desugaredQualType', p['type']['qualType'])
        mode, ct = pass_mode(pt_d)
        a = 'a%d' % i
        is_const = pt_d.strip().startswith('const ')
        if ct.klass == 'sv':
            if mode == 'val':
                pre.append('  std::string_view %s(%s.p, %s.n);' % (a, name, name))
            else:
                pre.append('  std::string_view %s(%s->p, %s->n);' % (a, name, name))
                post.append('  %s->p = %s.data(); %s->n = %s.size();' % (name, a, name, a))
            args.append(a)
        elif ct.klass == 'str':
            if mode == 'val':
                pre.append('  std::string %s(%s.d, %s.n);' % (a, name, name))
            else:
                pre.append('  std::string %s(%s->d, %s->n);' % (a, name, name))
                if not is_const:
                    post.append('  to_model((str_t *)%s, %s);' % (name, a))
            args.append('std::move(%s)' % a if pt_d.strip().endswith('&&') else a)
        elif ct.klass == 'arr' and ct.c in ('arr_uint16_t_8_t', 'arr_unsigned_short_8_t'):
            pre.append('  std::array<uint16_t, 8> %s; std::memcpy(%s.data(), %s->a, 16);' % (a, a, name))
            if not is_const:
                post.append('  std::memcpy((void *)%s->a, %s.data(), 16);' % (name, a))
            args.append(a)
        elif ct.klass is None and not ct.arr:
            if mode == 'val':
                base = re.sub(r'^const\s+', '', pt_d.strip())
                args.append('(%s)%s' % (base, name))
            else:
                # reference to a scalar / pointer: pass the pointee
                args.append('*%s' % name)
        elif ct.klass == 'comp':
            pre.append('  ada::url_components %s; std::memcpy((void *)&%s, (const void *)%s, sizeof(struct m_url_components));' % (a, a, name))
            args.append(a)
        elif ct.klass in ('agg', 'url'):
            mt, rt = SELF_M[ct.klass]
            pre.append('  %s %s; to_real(%s, (const %s *)%s);' % (rt, a, a, mt, name))
            if not is_const:
                post.append('  from_real((%s *)%s, %s);' % (mt, name, a))
            args.append(a)
        else:
            raise NoShim('parameter kind %s (%s)' % (ct.klass, pt_d))
    targs = ('<%s>' % r['targs']) if r.get('targs') else ''
    if is_method:
        call = 'o.%s%s%s(%s)' % ('template ' if targs else '', r['name'], targs, ', '.join(args))
    else:
        from .native import qualified
        call = '%s%s(%s)' % (qualified(cname), targs, ', '.join(args))
    rct = map_type(ret) if ret else map_type('void')
    body = list(pre)
    if rct.c == 'void' and not rct.ptr:
        body.append('  %s;' % call)
        body += post
    elif rct.klass == 'sv':
        body.append('  std::string_view r = %s;' % call)
        body += post
        if is_method:
            # views into the temporary object: re-anchor them in the model object's buffer when they point into o.buffer
            body.append('  sv_t rr; rr.n = r.size(); rr.p = r.data();')
            if r['cls'] == 'agg':
                body.append('  if (r.data() >= o.buffer.data() && r.data() <= o.buffer.data() + o.buffer.size()) rr.p = ((m_url_aggregator *)self)->buffer.d + (r.data() - o.buffer.data());')
                body.append('  else { static char keep[STR_CAP + 1]; std::memcpy(keep, r.data(), r.size() <= STR_CAP ? r.size() : 0); rr.p = keep; }')
            body.append('  return rr;')
        else:
            body.append('  sv_t rr; rr.p = r.data(); rr.n = r.size(); return rr;')
    elif rct.klass == 'str':
        body.append('  std::string r = %s;' % call)
        body += post
        body.append('  return model_str(r);')
    elif rct.klass == 'opt' and rct.elem is not None and rct.elem.klass == 'sv':
        body.append('  auto r = %s;' % call)
        body += post
        body.append('  opt_sv_t rr; rr.has = r.has_value(); rr.v.p = r ? r->data() : 0; rr.v.n = r ? r->size() : 0; return rr;')
    elif rct.klass == 'opt' and rct.c == 'opt_Bool_t':
        body.append('  auto r = %s;' % call)
        body += post
        body.append('  opt_Bool_t rr; rr.has = r.has_value(); rr.v = r.value_or(false); return rr;')
    elif rct.klass == 'result' and rct.c == 'result_str_t_t':
        body.append('  auto r = %s;' % call)
        body += post
        body.append('  result_str_t_t rr; rr.has = r.has_value(); to_model(&rr.v, r ? *r : std::string()); return rr;')
    elif rct.klass == 'comp' and not rct.ref:
        body.append('  ada::url_components r = %s;' % call)
        body += post
        body.append('  struct m_url_components rr; std::memcpy((void *)&rr, (const void *)&r, sizeof rr); return rr;')
    elif rct.klass is None and not rct.arr and not rct.ref:
        body.append('  auto r = %s;' % call)
        body += post
        body.append('  return (%s)r;' % rct.c)
    else:
        raise NoShim('return kind %s (%s)' % (rct.klass, ret))
    return 'extern "C" %s {\n%s\n}\n' % (c_sig_types(sig), '\n'.join(body)), sig + ';'


C_PRELUDE = r'''
#include <stdio.h>
#include <stdlib.h>
#include <stdint.h>
#include <stddef.h>
#include <string.h>
#include <setjmp.h>
static int n_fail = 0, n_skip = 0; static jmp_buf g_jb; extern int g_shim_overflow;
#define __CPROVER_assert(c, msg) do { if (!(c)) { printf("FAIL: %s\n", msg); n_fail++; } } while (0)
#define __CPROVER_assume(c) do { if (!(c)) { n_skip++; longjmp(g_jb, 1); } } while (0)
#define __CPROVER_same_object(a, b) 1
#define __CPROVER_havoc_object(x) ((void)0)
#define __CPROVER_is_fresh(p, n) 1
static size_t native_off(const void *p);
#define __CPROVER_POINTER_OFFSET(p) native_off((const void *)(p))
#define CANARY_POINT ((void)0)
'''


def c_program(o, info, w, protos):
    """C main program text for the native replay"""
    bufn = o.bufn or 64
    parts = []
    for d in o.defines:
        parts.append('#define ' + d.replace('=', ' ', 1))
    parts.append('#define BUF_N %d' % bufn)
    parts.append('#define NATIVE_REPLAY_DECLS 1')
    parts.append(C_PRELUDE)
    parts.append('#include "%s/model/base.h"' % VERIF)
    parts.append('#include "%s/model/ada_types.h"' % VERIF)
    parts.append('const char *g_p; const char *g_q; size_t g_k; size_t g_k2; uint32_t g_max_input_length = 0xffffffffu;\nchar g_buf[BUF_N], g_buf2[BUF_N];')
    parts.append('static size_t native_off(const void *p) { const char *q = (const char *)p; if (q >= g_buf && q <= g_buf + BUF_N) return (size_t)(q - g_buf); '
                 'if (q >= g_buf2 && q <= g_buf2 + BUF_N) return (size_t)(q - g_buf2); return 0; }')
    parts.append('unsigned char nondet_uchar(void) { return 0; } char nondet_char(void) { return 0; } size_t nondet_size(void) { return 0; } unsigned nondet_unsigned(void) { return 0; }\n'
                 '_Bool nondet_bool(void) { return 0; } unsigned long nondet_u64(void) { return 0; } unsigned short nondet_u16(void) { return 0; } int nondet_int(void) { return 0; }')
    for inc in o.includes:
        if not inc.endswith('.late.h'):
            parts.append('#include "%s/%s"' % (VERIF, inc))
    parts.append(info.get('tables', ''))
    for inc in o.includes:
        if inc.endswith('.late.h'):
            parts.append('#include "%s/%s"' % (VERIF, inc))
    parts.extend(protos)
    # witness-driven inputs
    sc = w.get('scalars', {})
    parts.append('#undef ND_SV\n#undef ND_SV2\n#undef NONDET\n#undef HAVOC_BUFS\n#define HAVOC_BUFS ((void)0)')
    parts.append('#define ND_SV(v) sv_t v; (v).n = W_n_##v; (v).p = BUF_AT(g_buf, (v).n)\n#define ND_SV2(v) sv_t v; (v).n = W_n_##v; (v).p = BUF_AT(g_buf2, (v).n)')
    parts.append('#define NONDET(T, name) T name = (T)W_##name')
    ht0 = info.get('harness_text', '')
    for m in re.finditer(r'NONDET\(\s*[\w ]+?\s*,\s*(\w+)\s*\)', ht0):
        if m.group(1) not in sc:
            parts.append('#define W_%s 0   /* not assigned before the refuted assertion */' % m.group(1))
    for m in re.finditer(r'ND_SV2?\(\s*(\w+)\s*\)', ht0):
        if (m.group(1) + '.n') not in sc:
            parts.append('#define W_n_%s 0' % m.group(1))
    for k, v in sorted(sc.items()):
        if re.match(r'^\w+$', k):
            parts.append('#define W_%s %s' % (k, v))
        m = re.match(r'^(\w+)\.n$', k)
        if m:
            parts.append('#define W_n_%s %s' % (m.group(1), v))
    # explicit field assignments for record inputs (ND_AGG etc.): W_INIT(x) expands to the recorded assignments of x.*
    objs = {}
    for k, v in w.get('paths', {}).items():
        if k.startswith('return_value') or k.startswith('tmp_'):
            continue
        root = re.match(r'^(\w+)', k).group(1)
        objs.setdefault(root, []).append('%s = %s;' % (k, v))
    for root, lines in objs.items():
        parts.append('#define W_INIT_%s do { %s } while (0)' % (root, ' '.join(lines)))
    for m in re.finditer(r'ND_(?:FILL\w*|URL|AGG)\(\s*(\w+)', ht0):
        if m.group(1) not in objs:
            parts.append('#define W_INIT_%s ((void)0)' % m.group(1))
    parts.append('#define NATIVE_REPLAY 1')
    ht = info.get('harness_text', '')
    parts.append(ht)
    init = []
    for nm in ('g_buf', 'g_buf2'):
        bs = w.get(nm)
        if bs:
            init.append('  { static const unsigned char b[] = {%s}; memcpy(%s, b, sizeof b <= BUF_N ? sizeof b : BUF_N); }' % (','.join(str(x & 0xFF) for x in bs), nm))
    parts.append('int main(void) {\n' + '\n'.join(init) + '''
  size_t lim = BUF_N + STR_CAP + 2;
  for (g_k = 0; g_k <= lim && n_fail == 0; g_k++) { g_k2 = g_k; if (setjmp(g_jb) == 0) harness(); }
  if (g_shim_overflow) printf("SKIP: a real result exceeded the model's string capacity\\n");
  if (n_fail == 0) printf(n_skip > lim ? "SKIP: an assumption of the harness does not hold natively\\n" : "OK: all assertions hold natively\\n");
  return n_fail ? 1 : 0;
}
''')
    return '\n'.join(parts) + '\n'


def build(o, ex, info, w):
    """-> (c_text, cpp_text) or raises NoShim"""
    wr, protos = [], []
    for c in o.roots:
        try:
            t, p = wrapper(ex, c)
        except Unsupported as e:
            raise NoShim(str(e))
        wr.append(t); protos.append(c_sig_types(p).replace('struct m_url_aggregator', 'struct url_aggregator').replace('struct m_url_components', 'struct url_components')
                                    .replace('struct m_url_base', 'struct url_base').replace('struct m_url ', 'struct url '))
    cap = 32
    for d in o.defines:
        if d.startswith('STR_CAP='):
            cap = int(d.split('=')[1])
    cpp = '#include "%s/src/ada.cpp"\n#define STR_CAP %d\n' % (REPO, cap) + CXX_PRELUDE + '\n'.join(wr)
    return c_program(o, info, w, protos), cpp
