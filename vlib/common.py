"""Shared paths, configurations and small helpers for the /verif machinery."""
import hashlib, json, os, subprocess, sys, time

VERIF = os.path.dirname(os.path.dirname(os.path.abspath(__file__)))
REPO = os.environ.get('VERIF_REPO', '/repo')
CACHE = os.environ.get('VERIF_CACHE', os.path.join(VERIF, '.cache'))
BUILD = os.environ.get('VERIF_BUILD', os.path.join(VERIF, '.build'))
NCPU = int(os.environ.get('VERIF_JOBS', str(os.cpu_count() or 4)))

# Build configurations of ada-url/ada that are extracted.  Flags are what the
# library build passes (see /repo/_build/compile_commands.json) plus the ISA
# switch that selects the kernel family in include/ada/common_defs.h.
BASE_FLAGS = ['-std=c++20', '-DADA_INCLUDE_URL_PATTERN=1',
              '-I%s/include' % REPO, '-I%s/src' % REPO]
CONFIGS = {
    # the shipped configuration: RelWithDebInfo => NDEBUG, __OPTIMIZE__, x86-64 baseline = SSE2
    'default':   ['-O2', '-DNDEBUG'],
    'ssse3':     ['-O2', '-DNDEBUG', '-mssse3'],
    'avx512':    ['-O2', '-DNDEBUG', '-mavx512bw', '-mavx512vl'],
    'devchecks': ['-O2', '-DNDEBUG', '-DADA_DEVELOPMENT_CHECKS=1'],
}


def sha(s):
    if isinstance(s, str):
        s = s.encode()
    return hashlib.sha256(s).hexdigest()


def run(cmd, timeout=None, cwd=None, inp=None, env=None):
    """Run a command; returns (rc, stdout, stderr, seconds). rc=-9 on timeout."""
    t0 = time.time()
    try:
        p = subprocess.run(cmd, stdout=subprocess.PIPE, stderr=subprocess.PIPE,
                           timeout=timeout, cwd=cwd, input=inp, env=env)
        return p.returncode, p.stdout.decode('utf-8', 'replace'), p.stderr.decode('utf-8', 'replace'), time.time() - t0
    except subprocess.TimeoutExpired as e:
        out = (e.stdout or b'').decode('utf-8', 'replace')
        err = (e.stderr or b'').decode('utf-8', 'replace')
        return -9, out, err, time.time() - t0


def ensure_dir(d):
    os.makedirs(d, exist_ok=True)
    return d


def write_if_changed(path, text):
    ensure_dir(os.path.dirname(path))
    try:
        if open(path).read() == text:
            return False
    except OSError:
        pass
    tmp = path + '.tmp%d' % os.getpid()
    with open(tmp, 'w') as f:
        f.write(text)
    os.replace(tmp, path)
    return True


class Undecided(Exception):
    """Raised for anything that must end as exit 2 (extraction break, tool error, timeout)."""
    pass


def log(*a):
    print(*a, file=sys.stderr, flush=True)
