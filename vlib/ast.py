"""clang-14 JSON AST access for the single translation unit /repo/src/ada.cpp.

Every run re-derives a hash of the *preprocessed* translation unit of the
requested configuration; all cached artefacts (AST dumps, table dumps,
generated C) live under CACHE/<hash>/ so a change anywhere in /repo's sources
that reaches the TU invalidates everything.
"""
import json, os, re
from .common import (REPO, CACHE, BASE_FLAGS, CONFIGS, run, sha, ensure_dir, Undecided, log)

CLANG = 'clang++-14'
_tu_hash = {}


def driver_path(src=None):
    d = ensure_dir(os.path.join(CACHE, 'drv'))
    src = src or os.path.join(REPO, 'src', 'ada.cpp')
    p = os.path.join(d, 'drv_%s.cpp' % sha(src)[:10])
    txt = '#include "%s"\n' % src
    if not os.path.exists(p) or open(p).read() != txt:
        open(p, 'w').write(txt)
    return p


def flags(cfg, src=None):
    fl = list(BASE_FLAGS) + CONFIGS[cfg]
    if src and not src.startswith(REPO):
        # amalgamated copy: its own include dir first
        fl = ['-std=c++20', '-DADA_INCLUDE_URL_PATTERN=1', '-I' + os.path.dirname(src)] + CONFIGS[cfg]
    return fl


def tu_hash(cfg, src=None):
    key = (cfg, src)
    if key in _tu_hash:
        return _tu_hash[key]
    rc, out, err, _ = run([CLANG] + flags(cfg, src) + ['-E', driver_path(src)], timeout=300)
    if rc != 0:
        raise Undecided('preprocessing /repo/src/ada.cpp failed (%s): %s' % (cfg, err[-2000:]))
    h = sha(out + ' '.join(flags(cfg, src)))[:20]
    _tu_hash[key] = h
    return h


def cache_dir(cfg, src=None):
    return ensure_dir(os.path.join(CACHE, tu_hash(cfg, src) + '_' + cfg))


def load_docs(path):
    s = open(path).read()
    dec = json.JSONDecoder()
    i = 0
    docs = []
    n = len(s)
    while i < n:
        while i < n and s[i] in ' \n\r\t':
            i += 1
        if i >= n:
            break
        if s[i] != '{':
            j = s.find('\n', i)
            i = j + 1 if j >= 0 else n
            continue
        d, j = dec.raw_decode(s, i)
        docs.append(d)
        i = j
    return docs


def dump(cfg, filt, src=None):
    """Return path of the (cached) JSON AST dump restricted to declarations matching filt."""
    d = cache_dir(cfg, src)
    p = os.path.join(d, 'ast_' + re.sub(r'[^A-Za-z0-9_]', '_', filt) + '_' + sha(filt)[:6] + '.json')
    if os.path.exists(p) and os.path.getsize(p) > 0:
        return p
    cmd = [CLANG] + flags(cfg, src) + ['-fsyntax-only', '-Wno-everything', '-Xclang', '-ast-dump=json',
                                       '-Xclang', '-ast-dump-filter=' + filt, driver_path(src)]
    rc, out, err, secs = run(cmd, timeout=600)
    if rc != 0:
        raise Undecided('clang AST dump failed for %s (%s): %s' % (filt, cfg, err[-2000:]))
    tmp = p + '.tmp%d' % os.getpid()
    open(tmp, 'w').write(out)
    os.replace(tmp, p)
    return p


def walk(n):
    if isinstance(n, dict):
        yield n
        for c in n.get('inner', []) or []:
            yield from walk(c)


FUNC_KINDS = ('FunctionDecl', 'CXXMethodDecl', 'CXXConstructorDecl', 'CXXConversionDecl')


def has_body(n):
    return any(isinstance(c, dict) and c.get('kind') == 'CompoundStmt' for c in n.get('inner', []) or [])


def find_functions(cfg, filt, src=None):
    """All function definitions (with body) inside the dump for filt, including template instantiations
    and lambdas' operator()s are NOT returned (they are reached through their enclosing function)."""
    out = []
    for d in load_docs(dump(cfg, filt, src)):
        stack = [d]
        while stack:
            n = stack.pop()
            if not isinstance(n, dict):
                continue
            k = n.get('kind')
            if k in FUNC_KINDS and has_body(n):
                out.append(n)
                continue  # do not descend into bodies
            if k in ('CompoundStmt',):
                continue
            stack.extend(n.get('inner', []) or [])
    return out


def find_function(cfg, filt, mangled=None, sig=None, src=None):
    """Select exactly one definition by mangled name (exact or regex) or by type signature."""
    c = find_functions(cfg, filt, src)
    sel = []
    for n in c:
        if mangled is not None:
            mn = n.get('mangledName', '')
            if mn == mangled or re.fullmatch(mangled, mn):
                sel.append(n)
        elif sig is not None:
            if n.get('type', {}).get('qualType') == sig:
                sel.append(n)
        else:
            if n.get('name') == filt.split('::')[-1]:
                sel.append(n)
    # the same definition may be dumped twice (matched through two parents): dedupe by id
    uniq = {}
    for n in sel:
        uniq[n.get('id')] = n
    sel = list(uniq.values())
    if len(sel) != 1:
        raise Undecided('extraction: expected exactly one definition for %s [%s] in config %s, found %d (%s)' % (
            filt, mangled or sig, cfg, len(sel), ', '.join(x.get('mangledName', '?') for x in c)[:500]))
    return sel[0]


def find_decls(cfg, filt, kinds, src=None):
    out = []
    for d in load_docs(dump(cfg, filt, src)):
        for n in walk(d):
            if n.get('kind') in kinds:
                out.append(n)
    return out
