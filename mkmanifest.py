#!/usr/bin/env python3
"""Regenerates MANIFEST.json from the table below (kept in one place so it is always valid)."""
import json, os
V = os.path.dirname(os.path.abspath(__file__))
NOTE = ('Trusted: clang-14 AST = program; cxx2c AST->C translation (closed node list, aborts otherwise); C models of std types '
        'and intrinsics; g++-evaluated tables; CBMC 6.11 + SAT back ends; spec predicates transcribed from the Standards. '
        'Assumed: allocation succeeds, no exceptions, call-site preconditions in uncontracted callers. Bounded obligations are '
        'listed separately in the evidence and never counted as proved.')
CLAIMED = {
 'C11': ('the seven percent-encode sets and the escape table are proved equal to the Standard\'s definitions for all 256 byte values; the encode/decode loops are proved against exact per-position contracts for inputs of any length', '5 C11'),
}
NA = {
 'C13': 'quantifies over thread schedules and memory orderings; CBMC function contracts (DFCC) are sequential and no concurrent separation-logic verifier is installed; interleaving enumeration would be model checking, a different family',
 'C14': 'URLPattern test/exec coherence depends on a regex engine behind a template parameter and on std::variant/optional<vector<...>> templated C++ outside the translator\'s closed list; no contract within reach of CBMC\'s C front end can express it',
}
PENDING = 'machinery for this property is not built yet in this commit (contract-based check under construction)'
props = [json.loads(l)['id'] for l in open(os.path.join(V, 'properties.jsonl'))]
checks, na = [], []
for p in props:
    if p in CLAIMED:
        text, ref = CLAIMED[p]
        checks.append(dict(property_id=p, quick_cmd='./check %s --tier quick' % p, thorough_cmd='./check %s --tier thorough' % p,
                           evidence_file='evidence/%s.json' % p, replay_cmd_template='./check --replay {path}', engine='cbmc-contracts',
                           level_claimed=dict(category='proof', text=text, design_ref='DESIGN.md section ' + ref),
                           level_note=NOTE, technique='contract-based deductive verification: CBMC 6.11 function/loop contracts (goto-instrument --dfcc) on C mechanically extracted from the clang AST of /repo'))
    else:
        na.append(dict(property_id=p, reason=NA.get(p, PENDING)))
m = dict(version=1, setup_cmd='./setup.sh',
         hooks=dict(guard='ADA_URL_ADA_VERIF', enable='no hooks are needed: functions are extracted from the clang AST of /repo/src/ada.cpp on every run; private members are reached in native replay with g++ -fno-access-control',
                    baseline_off_cmd='cmake --build /repo/_build -j16 && ctest --test-dir /repo/_build -j8 --timeout 900', source_commits=[], add_only=True),
         engines=[dict(name='cbmc-contracts', path='/verif/check', serves_properties=sorted(CLAIMED), kind_free_text='clang AST -> C extraction (vlib/cxx2c.py) + contracts (contracts/, harness/) + goto-instrument --dfcc + cbmc')],
         checks=checks, not_applicable=na,
         notes='exit 0 = all obligations discharged; exit 1 = VIOLATION lines; exit 2 = undecided (extraction/tool/timeout), never a violation. See DESIGN.md.')
json.dump(m, open(os.path.join(V, 'MANIFEST.json'), 'w'), indent=1)
print('MANIFEST.json written:', len(checks), 'checks,', len(na), 'not applicable')
