#!/usr/bin/env python3
"""Regenerates MANIFEST.json from the table below (kept in one place so it is always valid)."""
import json, os
V = os.path.dirname(os.path.abspath(__file__))
NOTE = ('Trusted: clang-14 AST = program; cxx2c AST->C translation (closed node list, aborts otherwise); C models of std types '
        'and intrinsics; g++-evaluated tables; CBMC 6.11 + SAT back ends; spec predicates transcribed from the Standards. '
        'Assumed: allocation succeeds, no exceptions, call-site preconditions in uncontracted callers. Bounded obligations are '
        'listed separately in the evidence and never counted as proved.')
CLAIMED = {
 'C01': ('partial: the byte-class / lookup tables, scheme perfect hash, drive-letter and dot-segment predicates and the delimiter / tab scanning kernels that both the fast and the slow parse path rely on are proved against predicates transcribed from the URL Standard (tables over all 256 bytes, scanners for any length by loop contracts, SIMD kernels incl. the overlapping 16-byte tail); whole-parser equivalence with the Standard is NOT decided', '5 C01'),
 'C02': ('partial: every obligation of every property runs with CBMC bounds / pointer / pointer-overflow / signed-overflow / shift / division checks on the extracted code, string_view and std::string preconditions as assertions, and decreases clauses on contracted loops; covers the functions under contract only', '5 C02'),
 'C03': ('partial: for each url_aggregator setter, with all editing callees abstracted by contracts that allow arbitrary effects: a setter that reports failure restores the object exactly, the length limit holds at every exit, the object stays valid; plus the refusal/atomicity contract of the state-override scheme parser and parse_host success => valid. Equality with the Standard\'s API setters as a whole is NOT decided', '5 C03'),
 'C05': ('partial: byte lemmas over the real encode sets (unencoded bytes are printable ASCII, the escape alphabet is never re-encoded), IPv4 serialize/parse identity over all 2^32 addresses, IPv6 serializer == Standard over all 2^128; parse(href(parse(x))) as a whole is NOT decided', '5 C05'),
 'C07': ('bounded: a representation invariant WF (offsets partition the href, delimiters in place, port digits = value) is preserved by each editor of the single-buffer URL and the whole abstract view changes exactly as specified, the real getters return the slices WF delimits, re-assembly reproduces the href, and validate() accepts every WF object -- for all aggregators with href up to the stated capacity (10 quick / 14-16 thorough)', '5 C07'),
 'C09': ('every exit of the parser state machine (loops cut by the Hoare rule, sub-parsers and editors abstract) and every exit of every url_aggregator setter keeps the href within the configured maximum length, for every limit L; oversized input is refused', '5 C09'),
 'C10': ('partial: IPv4 number parser, fast dotted-decimal parser (domain-complete, also for the AVX-512 kernel), ends-in-a-number checker, DNS length rule, host delimiter scan and both IP serializers are checked against executable reference specifications written from the Standard\'s prose; host kind is truthful after parse_host and when inherited from a base; the IPv6 parser is not decided yet', '5 C10'),
 'C11': ('the seven percent-encode sets and the escape table are proved equal to the Standard\'s definitions for all 256 byte values; the first-byte-to-encode scanner is proved for any length; all four encoder entry points and both decoders equal reference implementations for an arbitrary 256-bit set on bounded inputs', '5 C11'),
 'C04': ('partial: the two URL types are related only through SHARED contracts on twin functions -- both IPv4 parsers equal the Standard\'s IPv4 parser + serializer (thorough tier), the port rules, host-kind truthfulness, href size = buffer length; equality of the two parsers and setter pairs as wholes is NOT decided', '5 C04'),
 'C06': ('partial: ASCII lower-casing kernels (any length), the IDNA entry point on all-ASCII domains, the IDNA copy of the forbidden-domain table and the punycode digit maps; the Unicode mapping / NFC / bidi / joining tables and label validation are NOT decided (no Unicode 17 data offline; table look-ups do not solve)', '5 C06'),
 'C08': ('can_parse == parse(base) && parse(input, base) at every return for all lengths and limits, given contracts of its three callees and the normalization expansion bound (found and fixed the 3x-shortcut defect); the fast validator agrees with a Standard-derived reference on every definite answer (bounded inputs); validation-only mode of the parser is NOT separately decided', '5 C08'),
 'C12': ('partial: the sort comparator is UTF-16 code-unit order on well-formed UTF-8 and a strict weak ordering on arbitrary bytes (bounded keys); form-urlencoded codec round trip via the C11 obligations; the list operations (vector of pairs) are NOT decided', '5 C12'),
 'C15': ('partial: the shortcut byte classes of the URLPattern canonicalisers are sound w.r.t. the URL parser (all 256 bytes); the canonicaliser functions and the pattern parser are NOT decided', '5 C15'),
 'C16': ('partial: on all-ASCII domains the IDNA entry point is exactly ASCII lower-casing, hence case-insensitive, lower-case and idempotent there; results on non-ASCII input (mapping, NFC, punycode) are NOT decided', '5 C16'),
 'C19': ('partial: port rules (<= 65535, default port never stored, digits without sign), refusal of credentials/port on host-less or file URLs, host kind, and the structural part of WF (C07: port digits without leading zero, credentials only with a host, opaque path => no authority, non-opaque path empty or /...) hold for the functions under contract', '5 C19'),
 'C17': ('wrapper layer: each of 32 url wrappers of the C API is proved to return null/empty/false without invoking anything on a failed-parse handle, and otherwise to invoke exactly the corresponding C++ operation with (data,length) passed through and its result returned unchanged; copy/free/owned-string life cycle is leak-free. The C++ operations themselves are other properties; the search-params wrappers are not covered', '5 C17'),
 'C18': ('partial: the SSSE3 delimiter / tab kernels and the AVX-512 IPv4 kernel satisfy the same functional contracts as the SSE2 / scalar ones (deterministic contract => identical results); development-check assertions and the amalgamated build are not decided yet', '5 C18'),
}
NA = {
 'C13': 'quantifies over thread schedules and memory orderings; CBMC function contracts (DFCC) are sequential and no concurrent separation-logic verifier is installed; interleaving enumeration would be model checking, a different family',
 'C14': 'URLPattern test/exec coherence depends on a regex engine behind a template parameter and on std::variant/optional<vector<...>> templated C++ outside the translator\'s closed list; no contract within reach of CBMC\'s C front end can express it',
}
PENDING = 'machinery for this property is not built yet in this commit (contract-based check under construction)'
props = [json.loads(l)['id'] for l in open(os.path.join(V, 'properties.jsonl'))]
checks, na = [], []
for p in props:
    if p in CLAIMED:
        text, ref = CLAIMED[p]
        checks.append(dict(property_id=p, quick_cmd='./check %s --tier quick' % p, thorough_cmd='./check %s --tier thorough' % p,
                           evidence_file='evidence/%s.json' % p, replay_cmd_template='./check --replay {path}', engine='cbmc-contracts',
                           level_claimed=dict(category='proof', text=text, design_ref='DESIGN.md section ' + ref),
                           level_note=NOTE, technique='contract-based deductive verification: CBMC 6.11 function/loop contracts (goto-instrument --dfcc) on C mechanically extracted from the clang AST of /repo'))
    else:
        na.append(dict(property_id=p, reason=NA.get(p, PENDING)))
m = dict(version=1, setup_cmd='./setup.sh',
         hooks=dict(guard='ADA_URL_ADA_VERIF', enable='no hooks are needed: functions are extracted from the clang AST of /repo/src/ada.cpp on every run; private members are reached in native replay with g++ -fno-access-control',
                    baseline_off_cmd='cmake --build /repo/_build -j16 && ctest --test-dir /repo/_build -j8 --timeout 900', source_commits=[], add_only=True),
         engines=[dict(name='cbmc-contracts', path='/verif/check', serves_properties=sorted(CLAIMED), kind_free_text='clang AST -> C extraction (vlib/cxx2c.py) + contracts (contracts/, harness/) + goto-instrument --dfcc + cbmc')],
         checks=checks, not_applicable=na,
         notes='exit 0 = all obligations discharged; exit 1 = VIOLATION lines; exit 2 = undecided (extraction/tool/timeout), never a violation. See DESIGN.md.')
json.dump(m, open(os.path.join(V, 'MANIFEST.json'), 'w'), indent=1)
print('MANIFEST.json written:', len(checks), 'checks,', len(na), 'not applicable')
