str_t g_origin;
