/* /verif/model/base.h -- C models of the std:: vocabulary types used by ada-url/ada.
 * TRUSTED BASE (listed in every evidence file).  Semantics follow [string.view], [basic.string],
 * [optional]; undefined behaviour of the C++ operation is an assertion here.
 *
 * string_view  : pointer model, unbounded  (sv_t {p,n}); loops carry loop contracts (LOOPC) so that
 *                callers that are verified with --apply-loop-contracts stay unbounded.
 * std::string  : content model, capacity STR_CAP (compile time), value semantics (struct copy).
 *                Exceeding STR_CAP is an *assumption* (allocation succeeds, input small enough): every
 *                obligation that uses str_t with contents is graded bounded(STR_CAP).
 */
#ifndef VERIF_MODEL_BASE_H
#define VERIF_MODEL_BASE_H
#include <stddef.h>
#include <stdint.h>
#include <string.h>
#include <stdlib.h>

#ifndef STR_CAP
#define STR_CAP 32
#endif

#ifdef USE_LOOP_CONTRACTS
#define LOOPC(...) __VA_ARGS__
#else
#define LOOPC(...)
#endif

/* ghost cells for universally quantified post-conditions (never assigned; arbitrary values) */
extern const char *g_p;     /* arbitrary byte position */
extern const char *g_q;     /* a second, independent one */
extern size_t g_k;          /* arbitrary index */
extern size_t g_k2;
/* ghost index g_k is an absolute offset inside the object that `base` points into, so that facts survive
 * remove_prefix()/substr() (which move the pointer, not the object): position g_k lies in base[lo..hi) */
#define OFF(base) ((size_t)__CPROVER_POINTER_OFFSET(base))
#define GK_IN(base, lo, hi) (g_k >= OFF(base) + (lo) && g_k < OFF(base) + (hi))
#define GK_AT(base) ((base)[g_k - OFF(base)])
/* a cursor pointer inside base[0..n] (one past the end allowed), stated on offsets: no pointer relations on havoced pointers */
#define PTR_IN(q, base, n) (__CPROVER_same_object((q), (base)) && OFF(q) >= OFF(base) && OFF(q) <= OFF(base) + (n))
#define PTR_IDX(q, base) (OFF(q) - OFF(base))
#define GK2_IN(base, lo, hi) (g_k2 >= OFF(base) + (lo) && g_k2 < OFF(base) + (hi))
#define GK2_AT(base) ((base)[g_k2 - OFF(base)])

typedef struct { const char *p; size_t n; } sv_t;
typedef struct { size_t n; char d[STR_CAP + 1]; } str_t;
typedef struct { const uint32_t *p; size_t n; } u32sv_t;

#define NPOS ((size_t)-1)
#define SV_LIT(s) ((sv_t){(s), sizeof(s) - 1})
#define STD_MIN(a, b) ((b) < (a) ? (b) : (a))
#define STD_MAX(a, b) ((a) < (b) ? (b) : (a))

/* a string_view handed to extracted code.
 * unbounded mode : a fresh object of exactly n bytes, n symbolic up to maxn (reads outside [0,n) are caught);
 * bounded mode (-DBUF_N=k, quick tier): the view is the LAST n bytes of a k-byte global buffer with arbitrary
 *   contents, so that a read past the end of the view still leaves the object and is caught (a read before the
 *   start is not).  CBMC encodes a symbolic-size object with the array theory, which costs minutes per SIMD
 *   kernel; a fixed-size object is flattened and costs seconds. */
#ifdef BUF_N
extern char g_buf[BUF_N], g_buf2[BUF_N];
#ifdef BUF_START   /* fully unwound functional checks: view at offset 0 (constant indices after unrolling; over-reads
                      up to BUF_N are then NOT caught here -- memory safety of the function is another obligation's job) */
#define BUF_AT(buf, n) (buf)
#else
#define BUF_AT(buf, n) ((buf) + (BUF_N - (n)))
#endif
#define SV_VALID(v, maxn) ((v).n <= BUF_N && (v).n <= (maxn) && (v).p == BUF_AT(g_buf, (v).n))
#define SV_VALID2(v, maxn) ((v).n <= BUF_N && (v).n <= (maxn) && (v).p == BUF_AT(g_buf2, (v).n))
#ifdef WITNESS   /* counterexample extraction run: every byte is an explicit assignment visible in the trace */
#define WB_(i) g_buf[i] = nondet_char(); g_buf2[i] = nondet_char();
#define HAVOC_BUFS do { WB_FILL } while (0)
#else
#define HAVOC_BUFS do { __CPROVER_havoc_object(g_buf); __CPROVER_havoc_object(g_buf2); } while (0)
#endif
/* the harness must *assign* the pointer (an assumed pointer equality does not inform CBMC's points-to sets) */
#define MAKE_SV(v) do { __CPROVER_assume((v).n <= BUF_N); (v).p = BUF_AT(g_buf, (v).n); } while (0)
#define MAKE_SV2(v) do { __CPROVER_assume((v).n <= BUF_N); (v).p = BUF_AT(g_buf2, (v).n); } while (0)
#else
#define SV_VALID(v, maxn) ((v).n <= (maxn) && __CPROVER_is_fresh((v).p, (v).n))
#define SV_VALID2(v, maxn) SV_VALID(v, maxn)
#define HAVOC_BUFS ((void)0)
#define MAKE_SV(v) ((void)0)
#define MAKE_SV2(v) ((void)0)
#endif

/* operator new / new[]: never returns null (failure would be std::bad_alloc, assumed absent) */
static inline void *new_model(size_t bytes) { void *p = malloc(bytes); __CPROVER_assume(p != (void *)0); return p; }

/* CBMC's built-in memcpy (array_copy / array_replace) returns arbitrary bytes when the source pointer may denote string constants
 * of different sizes (measured: memcpy(out, T[t].p, T[t].n) with T = {{"http",4},{"ws",2}} fails an exact-content assertion).
 * That is an over-approximation (false alarms only); obligations that copy from such tables select the byte-wise model. */
#ifdef MEMCPY_BYTEWISE
static inline void *model_memcpy_bytes(void *d, const void *s, size_t n) { for (size_t i = 0; i < n; i++) ((char *)d)[i] = ((const char *)s)[i]; return d; }
#define memcpy model_memcpy_bytes
#endif
/* memcpy of a small constant size, byte by byte */
#define MC1_(d, s, k) ((char *)(d))[k] = ((const char *)(s))[k];
#define MEMCPY_1(d, s) do { MC1_(d, s, 0) } while (0)
#define MEMCPY_2(d, s) do { MC1_(d, s, 0) MC1_(d, s, 1) } while (0)
#define MEMCPY_4(d, s) do { MC1_(d, s, 0) MC1_(d, s, 1) MC1_(d, s, 2) MC1_(d, s, 3) } while (0)
#define MEMCPY_8(d, s) do { MC1_(d, s, 0) MC1_(d, s, 1) MC1_(d, s, 2) MC1_(d, s, 3) MC1_(d, s, 4) MC1_(d, s, 5) MC1_(d, s, 6) MC1_(d, s, 7) } while (0)
#define MEMCPY_16(d, s) do { MEMCPY_8(d, s); MEMCPY_8(((char *)(d)) + 8, ((const char *)(s)) + 8); } while (0)

/* harness inputs: NONDET(T, name) is an explicit nondeterministic assignment (so that it shows in CBMC traces) */
unsigned char nondet_uchar(void); char nondet_char(void); size_t nondet_size(void); unsigned nondet_unsigned(void);
_Bool nondet_bool(void); unsigned long nondet_u64(void); unsigned short nondet_u16(void); int nondet_int(void);
#define NONDET_uint8_t nondet_uchar()
#define NONDET_char nondet_char()
#define NONDET_size_t nondet_size()
#define NONDET_uint32_t nondet_unsigned()
#define NONDET_uint64_t nondet_u64()
#define NONDET_uint16_t nondet_u16()
#define NONDET_int nondet_int()
#define NONDET__Bool nondet_bool()
#define NONDET(T, name) T name = NONDET_##T

/* record / array inputs of a harness: in witness mode every element is an explicit nondeterministic assignment (so that it shows
 * in the trace); in a native replay the recorded values are assigned (W_INIT_<name>, generated from the counterexample) */
#ifdef NATIVE_REPLAY_DECLS
#define ND_FILL_U16(obj, arr, k) do { memset(&(obj), 0, sizeof(obj)); W_INIT_##obj; } while (0)
#define ND_FILL_U8(obj, arr, k) do { memset(&(obj), 0, sizeof(obj)); W_INIT_##obj; } while (0)
#else
#ifdef WITNESS
#define F8_(a, i) { uint8_t x_ = nondet_uchar(); (a)[i] = x_; }
#define F8x8_(a, b) F8_(a, b) F8_(a, b + 1) F8_(a, b + 2) F8_(a, b + 3) F8_(a, b + 4) F8_(a, b + 5) F8_(a, b + 6) F8_(a, b + 7)
/* 32-byte sets: loop-free so that the witness run needs no extra unwinding */
#define ND_FILL_U8(obj, arr, k) do { F8x8_(arr, 0) F8x8_(arr, 8) F8x8_(arr, 16) F8x8_(arr, 24) } while (0)
#else
#define ND_FILL_U8(obj, arr, k) ((void)0)   /* an uninitialised local is already arbitrary */
#endif
#define ND_FILL_U16(obj, arr, k) do { for (size_t i_ = 0; i_ < (k); i_++) { uint16_t x_ = nondet_u16(); (arr)[i_] = x_; } } while (0)
#endif
#define ND_SV(v) sv_t v; (v).n = nondet_size(); MAKE_SV(v)
#define ND_SV2(v) sv_t v; (v).n = nondet_size(); MAKE_SV2(v)

/* ---------------------------------------------------------------- string_view, read-only */
static inline size_t sv_size(sv_t v) { return v.n; }
static inline _Bool sv_empty(sv_t v) { return v.n == 0; }
static inline const char *sv_data(sv_t v) { return v.p; }
static inline const char *sv_begin(sv_t v) { return v.p; }
static inline const char *sv_end(sv_t v) { return v.p + v.n; }
static inline char sv_at(sv_t v, size_t i) {
  __CPROVER_assert(i < v.n, "std::string_view::operator[] index < size()");
  return v.p[i];
}
/* std::count(v.begin(), v.end(), c) */
static inline long sv_count__c(sv_t v, char c) { long k = 0; for (size_t i = 0; i < v.n; i++) if (v.p[i] == c) k++; return k; }
/* std::string_view::find_first_not_of(char) */
static inline size_t sv_find_first_not_of__c(sv_t v, char c) {
  for (size_t i = 0; i < v.n; i++) if (v.p[i] != c) return i;
  return NPOS;
}
static inline char sv_front(sv_t v) { __CPROVER_assert(v.n > 0, "string_view::front on empty view"); return v.p[0]; }
static inline char sv_back(sv_t v) { __CPROVER_assert(v.n > 0, "string_view::back on empty view"); return v.p[v.n - 1]; }
static inline sv_t sv_substr__z(sv_t v, size_t pos) {
  __CPROVER_assert(pos <= v.n, "string_view::substr pos <= size() (else std::out_of_range)");
  return (sv_t){v.p + pos, v.n - pos};
}
static inline sv_t sv_substr__z_z(sv_t v, size_t pos, size_t n) {
  __CPROVER_assert(pos <= v.n, "string_view::substr pos <= size() (else std::out_of_range)");
  size_t r = v.n - pos;
  return (sv_t){v.p + pos, n < r ? n : r};
}
static inline void sv_remove_prefix__z(sv_t *v, size_t n) {
  __CPROVER_assert(n <= v->n, "string_view::remove_prefix n <= size()");
  v->p += n; v->n -= n;
}
static inline void sv_remove_suffix__z(sv_t *v, size_t n) {
  __CPROVER_assert(n <= v->n, "string_view::remove_suffix n <= size()");
  v->n -= n;
}
static inline sv_t sv_ctor__p_p(const char *a, const char *b) { return (sv_t){a, (size_t)(b - a)}; }

/* find first c at or after pos; NPOS if none.  Loop contract: nothing equal to c in [pos,i). */
static inline size_t sv_find__c_z(sv_t v, char c, size_t pos) {
  size_t i = pos;
  for (; i < v.n; i++)
    LOOPC(__CPROVER_assigns(i)
          __CPROVER_loop_invariant(pos <= i && (i <= v.n || pos > v.n))
          __CPROVER_loop_invariant(GK_IN(v.p, pos, i) ==> GK_AT(v.p) != c)
          __CPROVER_decreases(v.n - i))
  {
    if (v.p[i] == c) return i;
  }
  return NPOS;
}
static inline size_t sv_find__c(sv_t v, char c) { return sv_find__c_z(v, c, 0); }

static inline size_t sv_rfind__c(sv_t v, char c) {
  size_t i = v.n;
  while (i > 0)
    LOOPC(__CPROVER_assigns(i)
          __CPROVER_loop_invariant(i <= v.n)
          __CPROVER_loop_invariant(GK_IN(v.p, i, v.n) ==> GK_AT(v.p) != c)
          __CPROVER_decreases(i))
  {
    if (v.p[i - 1] == c) return i - 1;
    i--;
  }
  return NPOS;
}

static inline _Bool sv_eq(sv_t a, sv_t b) {
  if (a.n != b.n) return 0;
  for (size_t i = 0; i < a.n; i++)
    LOOPC(__CPROVER_assigns(i)
          __CPROVER_loop_invariant(i <= a.n)
          __CPROVER_loop_invariant(g_k2 < i ==> a.p[g_k2] == b.p[g_k2])
          __CPROVER_decreases(a.n - i))
  {
    if (a.p[i] != b.p[i]) return 0;
  }
  return 1;
}
static inline _Bool sv_starts_with__sv(sv_t v, sv_t x) {
  if (x.n > v.n) return 0;
  return sv_eq((sv_t){v.p, x.n}, x);
}
static inline _Bool sv_ends_with__sv(sv_t v, sv_t x) {
  if (x.n > v.n) return 0;
  return sv_eq((sv_t){v.p + (v.n - x.n), x.n}, x);
}
static inline _Bool sv_starts_with__c(sv_t v, char c) { return v.n > 0 && v.p[0] == c; }
static inline _Bool sv_ends_with__c(sv_t v, char c) { return v.n > 0 && v.p[v.n - 1] == c; }

/* find(needle, pos): needle is short (a literal) at every call site in ada */
static inline size_t sv_find__sv_z(sv_t v, sv_t x, size_t pos) {
  if (x.n == 0) return pos <= v.n ? pos : NPOS;
  if (x.n > v.n) return NPOS;
  size_t i = pos;
  for (; i + x.n <= v.n; i++)
    LOOPC(__CPROVER_assigns(i)
          __CPROVER_loop_invariant(pos <= i && (i + x.n <= v.n + 1 || pos + x.n > v.n + 1))
          __CPROVER_decreases(v.n - i))
  {
    _Bool eq = 1;
    for (size_t j = 0; j < x.n; j++)
      LOOPC(__CPROVER_assigns(j, eq)
            __CPROVER_loop_invariant(j <= x.n)
            __CPROVER_decreases(x.n - j))
    {
      if (v.p[i + j] != x.p[j]) { eq = 0; break; }
    }
    if (eq) return i;
  }
  return NPOS;
}
static inline size_t sv_find__sv(sv_t v, sv_t x) { return sv_find__sv_z(v, x, 0); }

static inline size_t sv_find_first_of__sv_z(sv_t v, sv_t set, size_t pos) {
  for (size_t i = pos; i < v.n; i++)
    LOOPC(__CPROVER_assigns(i)
          __CPROVER_loop_invariant(pos <= i && (i <= v.n || pos > v.n))
          __CPROVER_decreases(v.n - i))
  {
    for (size_t j = 0; j < set.n; j++)
      LOOPC(__CPROVER_assigns(j)
            __CPROVER_loop_invariant(j <= set.n)
            __CPROVER_decreases(set.n - j))
    {
      if (v.p[i] == set.p[j]) return i;
    }
  }
  return NPOS;
}
static inline size_t sv_find_first_of__sv(sv_t v, sv_t set) { return sv_find_first_of__sv_z(v, set, 0); }

static inline int sv_compare__sv(sv_t a, sv_t b) {
  size_t m = a.n < b.n ? a.n : b.n;
  for (size_t i = 0; i < m; i++)
    LOOPC(__CPROVER_assigns(i) __CPROVER_loop_invariant(i <= m) __CPROVER_decreases(m - i))
  {
    unsigned char x = (unsigned char)a.p[i], y = (unsigned char)b.p[i];
    if (x != y) return x < y ? -1 : 1;
  }
  return a.n < b.n ? -1 : (a.n > b.n ? 1 : 0);
}

static inline sv_t sv_from_cstr(const char *s) {
  size_t n = 0;
  while (s[n] != 0)
    LOOPC(__CPROVER_assigns(n) __CPROVER_loop_invariant(1))
  { n++; }
  return (sv_t){s, n};
}

/* ---------------------------------------------------------------- std::string, content model */
#define STR_FITS(k) __CPROVER_assume((k) <= STR_CAP)   /* capacity assumption (bounded model) */

static inline str_t str_ctor(void) { str_t s; s.n = 0; s.d[0] = 0; return s; }
static inline sv_t str_sv(const str_t *s) { return (sv_t){s->d, s->n}; }
static inline size_t str_size(const str_t *s) { return s->n; }
static inline char *str_data(str_t *s) { return s->d; }
static inline char *str_begin(str_t *s) { return s->d; }
static inline char *str_end(str_t *s) { return s->d + s->n; }
static inline char *str_at(str_t *s, size_t i) {
  __CPROVER_assert(i <= s->n, "std::string::operator[] index <= size()");
  return &s->d[i];
}
static inline char *str_front(str_t *s) { __CPROVER_assert(s->n > 0, "string::front on empty"); return &s->d[0]; }
static inline char *str_back(str_t *s) { __CPROVER_assert(s->n > 0, "string::back on empty"); return &s->d[s->n - 1]; }

static inline void str_raw_copy(char *dst, const char *src, size_t n) {
  for (size_t i = 0; i < n; i++) dst[i] = src[i];
}
static inline str_t str_ctor__sv(sv_t v) {
  str_t s; STR_FITS(v.n);
  for (size_t i = 0; i < v.n; i++) s.d[i] = v.p[i];
  s.n = v.n; s.d[s.n] = 0; return s;
}
static inline str_t str_ctor__p_z(const char *p, size_t n) { return str_ctor__sv((sv_t){p, n}); }
static inline str_t str_ctor__z_c(size_t n, char c) {
  str_t s; STR_FITS(n);
  for (size_t i = 0; i < n; i++) s.d[i] = c;
  s.n = n; s.d[n] = 0; return s;
}
static inline void str_clear(str_t *s) { s->n = 0; s->d[0] = 0; }
static inline void str_reserve__z(str_t *s, size_t n) { (void)s; (void)n; }
static inline void str_push_back__c(str_t *s, char c) { STR_FITS(s->n + 1); s->d[s->n++] = c; s->d[s->n] = 0; }
static inline void str_insert__z_sv(str_t *s, size_t pos, sv_t v) {
  __CPROVER_assert(pos <= s->n, "string::insert pos <= size() (else std::out_of_range)");
  STR_FITS(s->n + v.n);
  /* v must not alias s (callers guarantee it: ADA_ASSERT !overlaps); checked where it matters */
  for (size_t i = s->n; i > pos; i--) s->d[i - 1 + v.n] = s->d[i - 1];
  for (size_t i = 0; i < v.n; i++) s->d[pos + i] = v.p[i];
  s->n += v.n; s->d[s->n] = 0;
}
static inline void str_insert__z_sv_z_z(str_t *s, size_t pos, sv_t v, size_t subpos, size_t sublen) {
  __CPROVER_assert(subpos <= v.n, "string::insert subpos <= t.size()");
  size_t r = v.n - subpos;
  str_insert__z_sv(s, pos, (sv_t){v.p + subpos, sublen < r ? sublen : r});
}
static inline void str_append__sv(str_t *s, sv_t v) { str_insert__z_sv(s, s->n, v); }
static inline void str_append__p_z(str_t *s, const char *p, size_t n) { str_insert__z_sv(s, s->n, (sv_t){p, n}); }
static inline void str_append__z_c(str_t *s, size_t n, char c) {
  STR_FITS(s->n + n);
  for (size_t i = 0; i < n; i++) s->d[s->n + i] = c;
  s->n += n; s->d[s->n] = 0;
}
static inline void str_erase__z_z(str_t *s, size_t pos, size_t n) {
  __CPROVER_assert(pos <= s->n, "string::erase pos <= size() (else std::out_of_range)");
  size_t r = s->n - pos;
  if (n > r) n = r;
  for (size_t i = pos; i + n < s->n; i++) s->d[i] = s->d[i + n];
  s->n -= n; s->d[s->n] = 0;
}
static inline void str_erase__z(str_t *s, size_t pos) { str_erase__z_z(s, pos, NPOS); }
static inline void str_replace__z_z_sv(str_t *s, size_t pos, size_t n, sv_t v) {
  __CPROVER_assert(pos <= s->n, "string::replace pos <= size() (else std::out_of_range)");
  str_erase__z_z(s, pos, n);
  str_insert__z_sv(s, pos, v);
}
static inline void str_resize__z_c(str_t *s, size_t n, char c) {
  STR_FITS(n);
  for (size_t i = s->n; i < n; i++) s->d[i] = c;
  s->n = n; s->d[n] = 0;
}
static inline void str_resize__z(str_t *s, size_t n) { str_resize__z_c(s, n, 0); }
static inline void str_assign__sv(str_t *s, sv_t v) { *s = str_ctor__sv(v); }
static inline void str_assign__p_z(str_t *s, const char *p, size_t n) { *s = str_ctor__sv((sv_t){p, n}); }
static inline void str_assign__c(str_t *s, char c) { s->n = 1; s->d[0] = c; s->d[1] = 0; }
static inline str_t str_concat__sv_sv(sv_t a, sv_t b) { str_t s = str_ctor__sv(a); str_append__sv(&s, b); return s; }
static inline str_t helpers_concat__2(sv_t a, sv_t b) { return str_concat__sv_sv(a, b); }
static inline str_t helpers_concat__3(sv_t a, sv_t b, sv_t c) { str_t s = str_concat__sv_sv(a, b); str_append__sv(&s, c); return s; }

/* std::to_string(unsigned) */
static inline str_t std_to_string__unsigned_int(unsigned v) {
  char tmp[10]; int k = 0;
  do { tmp[k++] = (char)('0' + v % 10); v /= 10; } while (v != 0 && k < 10);
  str_t s; s.n = 0;
  while (k > 0) s.d[s.n++] = tmp[--k];
  s.d[s.n] = 0; return s;
}

/* ---------------------------------------------------------------- std::u32string(_view), content model (capacity U32_CAP) */
#ifndef U32_CAP
#define U32_CAP 8
#endif
typedef struct { size_t n; uint32_t d[U32_CAP + 1]; } u32str_t;
#define U32_FITS(k) __CPROVER_assume((k) <= U32_CAP)
static inline u32str_t u32str_ctor(void) { u32str_t s; s.n = 0; s.d[0] = 0; return s; }
static inline u32str_t u32str_ctor__z_z(size_t n, uint32_t c) { u32str_t s; U32_FITS(n); for (size_t i = 0; i < n; i++) s.d[i] = c; s.n = n; s.d[n] = 0; return s; }
static inline u32sv_t u32str_sv(const u32str_t *s) { return (u32sv_t){s->d, s->n}; }
static inline size_t u32str_size(const u32str_t *s) { return s->n; }
static inline _Bool u32str_empty(const u32str_t *s) { return s->n == 0; }
static inline uint32_t *u32str_data(u32str_t *s) { return s->d; }
static inline uint32_t *u32str_begin(u32str_t *s) { return s->d; }
static inline uint32_t *u32str_end(u32str_t *s) { return s->d + s->n; }
static inline uint32_t *u32str_at(u32str_t *s, size_t i) { __CPROVER_assert(i <= s->n, "u32string::operator[] index <= size()"); return &s->d[i]; }
static inline uint32_t *u32str_back(u32str_t *s) { __CPROVER_assert(s->n > 0, "u32string::back on empty"); return &s->d[s->n - 1]; }
static inline uint32_t *u32str_front(u32str_t *s) { __CPROVER_assert(s->n > 0, "u32string::front on empty"); return &s->d[0]; }
static inline void u32str_clear(u32str_t *s) { s->n = 0; s->d[0] = 0; }
static inline void u32str_reserve__z(u32str_t *s, size_t n) { (void)s; (void)n; }
static inline void u32str_resize__z(u32str_t *s, size_t n) { U32_FITS(n); for (size_t i = s->n; i < n; i++) s->d[i] = 0; s->n = n; s->d[n] = 0; }
static inline void u32str_push_back__z(u32str_t *s, uint32_t c) { U32_FITS(s->n + 1); s->d[s->n++] = c; s->d[s->n] = 0; }
static inline void u32str_append__z(u32str_t *s, uint32_t c) { u32str_push_back__z(s, c); }
static inline void u32str_append__u32sv(u32str_t *s, u32sv_t v) { U32_FITS(s->n + v.n); for (size_t i = 0; i < v.n; i++) s->d[s->n + i] = v.p[i]; s->n += v.n; s->d[s->n] = 0; }
static inline void u32str_insert__p_z(u32str_t *s, uint32_t *pos, uint32_t c) { size_t k = (size_t)(pos - s->d); U32_FITS(s->n + 1); for (size_t i = s->n; i > k; i--) s->d[i] = s->d[i - 1]; s->d[k] = c; s->n++; s->d[s->n] = 0; }
static inline size_t u32sv_size(u32sv_t v) { return v.n; }
static inline _Bool u32sv_empty(u32sv_t v) { return v.n == 0; }
static inline const uint32_t *u32sv_data(u32sv_t v) { return v.p; }
static inline const uint32_t *u32sv_begin(u32sv_t v) { return v.p; }
static inline const uint32_t *u32sv_end(u32sv_t v) { return v.p + v.n; }
static inline uint32_t u32sv_at(u32sv_t v, size_t i) { __CPROVER_assert(i < v.n, "u32string_view::operator[] index < size()"); return v.p[i]; }
static inline uint32_t u32sv_front(u32sv_t v) { __CPROVER_assert(v.n > 0, "u32string_view::front on empty"); return v.p[0]; }
static inline uint32_t u32sv_back(u32sv_t v) { __CPROVER_assert(v.n > 0, "u32string_view::back on empty"); return v.p[v.n - 1]; }
static inline u32sv_t u32sv_substr__z(u32sv_t v, size_t pos) { __CPROVER_assert(pos <= v.n, "u32string_view::substr pos <= size()"); return (u32sv_t){v.p + pos, v.n - pos}; }
static inline u32sv_t u32sv_substr__z_z(u32sv_t v, size_t pos, size_t n) { __CPROVER_assert(pos <= v.n, "u32string_view::substr pos <= size()"); size_t r = v.n - pos; return (u32sv_t){v.p + pos, n < r ? n : r}; }
static inline void u32sv_remove_prefix__z(u32sv_t *v, size_t n) { __CPROVER_assert(n <= v->n, "remove_prefix n <= size()"); v->p += n; v->n -= n; }
static inline void u32sv_remove_suffix__z(u32sv_t *v, size_t n) { __CPROVER_assert(n <= v->n, "remove_suffix n <= size()"); v->n -= n; }
static inline _Bool u32sv_eq(u32sv_t a, u32sv_t b) { if (a.n != b.n) return 0; for (size_t i = 0; i < a.n; i++) if (a.p[i] != b.p[i]) return 0; return 1; }

/* ---------------------------------------------------------------- optional / pair / array */
typedef struct { _Bool has; sv_t v; } opt_sv_t;
typedef struct { _Bool has; _Bool v; } opt_Bool_t;
/* std::ranges::mismatch over two character ranges (in_in_result of two const char* iterators) */
typedef struct { const char *in1; const char *in2; } mismatch_result_t;
static inline mismatch_result_t sv_mismatch(sv_t a, sv_t b) { size_t i = 0; while (i < a.n && i < b.n && a.p[i] == b.p[i]) i++; return (mismatch_result_t){a.p + i, b.p + i}; }
typedef struct { _Bool has; str_t v; } opt_str_t;
/* tl::expected<std::string, ada::errors>: has == has_value() */
typedef struct { _Bool has; str_t v; } result_str_t_t;
typedef struct { _Bool has; uint16_t v; } opt_uint16_t;
typedef opt_uint16_t opt_unsigned_short_t;   /* std::optional<uint16_t> spelled through its desugared type */
typedef struct { _Bool has; uint32_t v; } opt_uint32_t;
typedef struct { size_t first; _Bool second; } pair_size_t_Bool_t;
typedef struct { str_t first; str_t second; } pair_str_t_str_t_t;
typedef pair_size_t_Bool_t pair_unsigned_long_Bool_t;
typedef struct { uint16_t a[8]; } arr_uint16_t_8_t;
typedef struct { unsigned short a[8]; } arr_unsigned_short_8_t;
typedef struct { uint8_t a[256]; } arr_uint8_t_256_t;
typedef struct { unsigned char a[256]; } arr_unsigned_char_256_t;
typedef struct { _Bool a[256]; } arr_Bool_256_t;
typedef struct { char a[200]; } arr_char_200_t;
#define OPT_VALUE_OR(o, d) ((o).has ? (o).v : (d))

/* ---------------------------------------------------------------- <charconv> */
typedef struct { const char *ptr; int ec; } from_chars_result_t;
#define E_std_errc_result_out_of_range 34
#define E_std_errc_invalid_argument 22
/* std::from_chars for unsigned 16-bit, base 10: longest digit run; no digit -> invalid_argument, ptr=first;
 * value > 65535 -> result_out_of_range, ptr = end of the digit run, value untouched. */
static inline from_chars_result_t std_from_chars__uint16_t(const char *first, const char *last, uint16_t *value) {
  const char *p = first;
  uint32_t v = 0; _Bool ovf = 0;
  while (p < last && *p >= '0' && *p <= '9')
    LOOPC(__CPROVER_assigns(p, v, ovf)
          __CPROVER_loop_invariant(__CPROVER_same_object(p, first) && first <= p && p <= last)
          __CPROVER_loop_invariant(v <= 65535)
          __CPROVER_decreases(last - p))
  {
    v = v * 10 + (uint32_t)(*p - '0');
    if (v > 65535) { ovf = 1; v = 65535; }
    p++;
  }
  from_chars_result_t r;
  r.ptr = p;
  if (p == first) { r.ec = E_std_errc_invalid_argument; return r; }
  if (ovf) { r.ec = E_std_errc_result_out_of_range; return r; }
  *value = (uint16_t)v; r.ec = 0; return r;
}
#define std_from_chars__unsigned_short std_from_chars__uint16_t
/* std::to_chars for unsigned 16-bit, base 10 [charconv.to.chars]: decimal digits without leading zeros; ec = value_too_large (75)
 * and ptr = last when the buffer is too small */
typedef struct { char *ptr; int ec; } to_chars_result_t;
static inline to_chars_result_t std_to_chars__uint16_t(char *first, char *last, uint16_t value) {
  unsigned nd = value >= 10000 ? 5 : value >= 1000 ? 4 : value >= 100 ? 3 : value >= 10 ? 2 : 1;
  to_chars_result_t r;
  if ((size_t)(last - first) < nd) { r.ptr = last; r.ec = 75; return r; }
  unsigned v = value;
  if (nd >= 5) first[nd - 5] = (char)('0' + (v / 10000) % 10);
  if (nd >= 4) first[nd - 4] = (char)('0' + (v / 1000) % 10);
  if (nd >= 3) first[nd - 3] = (char)('0' + (v / 100) % 10);
  if (nd >= 2) first[nd - 2] = (char)('0' + (v / 10) % 10);
  first[nd - 1] = (char)('0' + v % 10);
  r.ptr = first + nd; r.ec = 0; return r;
}
#define std_to_chars__unsigned_short std_to_chars__uint16_t

/* ---------------------------------------------------------------- <algorithm> instances
 * DEFINE_<ALG>_<RANGE>(name, pred): a loop over the range calling the *extracted* predicate.
 * With USE_LOOP_CONTRACTS the obligation's spec header may define INV_<name>(i) as an extra invariant. */
#define DEFINE_ALL_OF_SV(name, pred) \
  static inline _Bool name(sv_t v) { \
    for (size_t i = 0; i < v.n; i++) \
      LOOPC(__CPROVER_assigns(i) __CPROVER_loop_invariant(i <= v.n) \
            __CPROVER_loop_invariant(GK_IN(v.p, 0, i) ==> SPEC_##pred(GK_AT(v.p))) __CPROVER_decreases(v.n - i)) \
    { if (!pred(v.p[i])) return 0; } \
    return 1; }
#define DEFINE_ANY_OF_SV(name, pred) \
  static inline _Bool name(sv_t v) { \
    for (size_t i = 0; i < v.n; i++) \
      LOOPC(__CPROVER_assigns(i) __CPROVER_loop_invariant(i <= v.n) \
            __CPROVER_loop_invariant(GK_IN(v.p, 0, i) ==> !SPEC_##pred(GK_AT(v.p))) __CPROVER_decreases(v.n - i)) \
    { if (pred(v.p[i])) return 1; } \
    return 0; }
#define DEFINE_FIND_IF_SV(name, pred) \
  static inline const char *name(sv_t v) { \
    size_t i = 0; \
    for (; i < v.n; i++) \
      LOOPC(__CPROVER_assigns(i) __CPROVER_loop_invariant(i <= v.n) \
            __CPROVER_loop_invariant(GK_IN(v.p, 0, i) ==> !SPEC_##pred(GK_AT(v.p))) __CPROVER_decreases(v.n - i)) \
    { if (pred(v.p[i])) break; } \
    return v.p + i; }
#define DEFINE_FIND_IF_NOT_SV(name, pred) \
  static inline const char *name(sv_t v) { \
    size_t i = 0; \
    for (; i < v.n; i++) \
      LOOPC(__CPROVER_assigns(i) __CPROVER_loop_invariant(i <= v.n) \
            __CPROVER_loop_invariant(GK_IN(v.p, 0, i) ==> SPEC_##pred(GK_AT(v.p))) __CPROVER_decreases(v.n - i)) \
    { if (!pred(v.p[i])) break; } \
    return v.p + i; }
#define DEFINE_FIND_IF_NOT_STR(name, pred) \
  static inline char *name(str_t *s) { \
    size_t i = 0; \
    for (; i < s->n; i++) { if (!pred(s->d[i])) break; } \
    return s->d + i; }
#define DEFINE_FIND_IF_STR(name, pred) \
  static inline char *name(str_t *s) { \
    size_t i = 0; \
    for (; i < s->n; i++) { if (pred(s->d[i])) break; } \
    return s->d + i; }
/* std::erase_if(std::string&, pred): stable removal */
#define DEFINE_ERASE_IF_STR(name, pred) \
  static inline size_t name(str_t *s) { \
    size_t w = 0; \
    for (size_t r = 0; r < s->n; r++) { if (!pred(s->d[r])) s->d[w++] = s->d[r]; } \
    size_t removed = s->n - w; s->n = w; s->d[w] = 0; return removed; }


#endif
