int g_ipv4_called; int g_host_from_base;
