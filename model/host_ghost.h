/* ghost record of what the abstract url_aggregator::update_base_hostname was given */
str_t g_host; int g_host_written;
