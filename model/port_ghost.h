/* ghost record of what the abstract port editors were asked to do */
int g_port_op;          /* 0 nothing, 1 update_base_port(g_port_val), 2 clear_port() */
uint32_t g_port_val;
