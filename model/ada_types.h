/* /verif/model/ada_types.h -- C layout of ada's record types (field names as in include/ada/url_base.h, url_aggregator.h,
 * url_components.h, url.h).  A renamed/added field makes the generated C or the tabdump TU fail to compile (=> exit 2). */
#ifndef VERIF_MODEL_ADA_TYPES_H
#define VERIF_MODEL_ADA_TYPES_H
struct url_base { _Bool is_valid; _Bool has_opaque_path; int host_type; int type; };
struct url_components {
  uint32_t protocol_end, username_end, host_start, host_end, port, pathname_start, search_start, hash_start;
};
struct url_aggregator { struct url_base base; str_t buffer; struct url_components components; };
struct url {
  struct url_base base;
  opt_str_t host; str_t path; opt_str_t query; opt_str_t hash; opt_uint16_t port; str_t username; str_t password;
  str_t non_special_scheme;
};
typedef struct { _Bool has; struct url_aggregator v; } result_url_aggregator_t;   /* ada::result<url_aggregator> = tl::expected<url_aggregator, errors> */
typedef struct { const char *data; size_t length; } ada_string;
typedef struct { const char *data; size_t length; } ada_owned_string;
typedef struct { uint32_t protocol_end, username_end, host_start, host_end, port, pathname_start, search_start, hash_start; } ada_url_components;
static inline result_url_aggregator_t *NEW__result_url_aggregator_t(result_url_aggregator_t v) {
  result_url_aggregator_t *p = (result_url_aggregator_t *)malloc(sizeof(result_url_aggregator_t));
  __CPROVER_assume(p != (void *)0);      /* allocation succeeds (global assumption) */
  *p = v; return p; }
struct url_search_params { int params_are_not_modelled; };
#define OMITTED 0xffffffffu
/* ada::get_max_input_length(): a relaxed atomic load of the process-wide limit; modelled as an arbitrary but fixed value */
extern uint32_t g_max_input_length;
static inline uint32_t get_max_input_length(void) { return g_max_input_length; }
/* basic shape (type invariant) of an aggregator in the string model: what every member function may rely on for memory
 * safety -- the string is within capacity and NUL-terminated and no offset points outside it */
#define AGG_SHAPE(u) ((u)->base.type >= 0 && (u)->base.type <= 6 && (u)->base.host_type >= 0 && (u)->base.host_type <= 2 && (u)->buffer.n <= STR_CAP && (u)->buffer.d[(u)->buffer.n] == 0 && \
  (u)->components.protocol_end <= (u)->buffer.n && (u)->components.username_end <= (u)->buffer.n && (u)->components.host_start <= (u)->buffer.n && \
  (u)->components.host_end <= (u)->buffer.n && (u)->components.pathname_start <= (u)->buffer.n && \
  (u)->components.protocol_end <= (u)->components.username_end && (u)->components.username_end <= (u)->components.host_start && \
  (u)->components.host_start <= (u)->components.host_end && (u)->components.host_end <= (u)->components.pathname_start && \
  ((u)->components.search_start == OMITTED || (u)->components.search_start < (u)->buffer.n) && \
  ((u)->components.hash_start == OMITTED || (u)->components.hash_start < (u)->buffer.n) && \
  ((u)->components.search_start == OMITTED || (u)->components.pathname_start <= (u)->components.search_start) && \
  ((u)->components.hash_start == OMITTED || (u)->components.pathname_start <= (u)->components.hash_start) && \
  ((u)->components.search_start == OMITTED || (u)->components.hash_start == OMITTED || (u)->components.search_start < (u)->components.hash_start))
static inline _Bool agg_eqv(struct url_aggregator a, struct url_aggregator b) {
  if (a.base.is_valid != b.base.is_valid || a.base.has_opaque_path != b.base.has_opaque_path || a.base.host_type != b.base.host_type || a.base.type != b.base.type) return 0;
  if (a.components.protocol_end != b.components.protocol_end || a.components.username_end != b.components.username_end || a.components.host_start != b.components.host_start ||
      a.components.host_end != b.components.host_end || a.components.port != b.components.port || a.components.pathname_start != b.components.pathname_start ||
      a.components.search_start != b.components.search_start || a.components.hash_start != b.components.hash_start) return 0;
  if (a.buffer.n != b.buffer.n) return 0;
  for (size_t i = 0; i <= STR_CAP; i++) if (a.buffer.d[i] != b.buffer.d[i]) return 0;
  return 1;
}
#endif
