/* /verif/model/ada_types.h -- C layout of ada's record types (field names as in include/ada/url_base.h, url_aggregator.h,
 * url_components.h, url.h).  A renamed/added field makes the generated C or the tabdump TU fail to compile (=> exit 2). */
#ifndef VERIF_MODEL_ADA_TYPES_H
#define VERIF_MODEL_ADA_TYPES_H
struct url_base { _Bool is_valid; _Bool has_opaque_path; int host_type; int type; };
struct url_components {
  uint32_t protocol_end, username_end, host_start, host_end, port, pathname_start, search_start, hash_start;
};
struct url_aggregator { struct url_base base; str_t buffer; struct url_components components; };
struct url {
  struct url_base base;
  opt_str_t host; str_t path; opt_str_t query; opt_str_t hash; opt_uint16_t port; str_t username; str_t password;
  str_t non_special_scheme;
};
#define OMITTED 0xffffffffu
/* ada::get_max_input_length(): a relaxed atomic load of the process-wide limit; modelled as an arbitrary but fixed value */
extern uint32_t g_max_input_length;
static inline uint32_t get_max_input_length(void) { return g_max_input_length; }
#endif
