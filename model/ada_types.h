/* /verif/model/ada_types.h -- C layout of ada's record types (field names as in include/ada/url_base.h, url_aggregator.h,
 * url_components.h, url.h).  A renamed/added field makes the generated C or the tabdump TU fail to compile (=> exit 2). */
#ifndef VERIF_MODEL_ADA_TYPES_H
#define VERIF_MODEL_ADA_TYPES_H
struct url_base { _Bool is_valid; _Bool has_opaque_path; int host_type; int type; };
struct url_components {
  uint32_t protocol_end, username_end, host_start, host_end, port, pathname_start, search_start, hash_start;
};
struct url_aggregator { struct url_base base; str_t buffer; struct url_components components; };
struct url {
  struct url_base base;
  opt_str_t host; str_t path; opt_str_t query; opt_str_t hash; opt_uint16_t port; str_t username; str_t password;
  str_t non_special_scheme;
};
/* type invariant of an ada::url in the string model: every string within capacity and NUL-terminated */
#define STR_SHAPE(s) ((s).n <= STR_CAP && (s).d[(s).n] == 0)
#define URL_SHAPE(u) ((u)->base.type >= 0 && (u)->base.type <= 6 && (u)->base.host_type >= 0 && (u)->base.host_type <= 2 && (!(u)->host.has || STR_SHAPE((u)->host.v)) && STR_SHAPE((u)->path) && \
  (!(u)->query.has || STR_SHAPE((u)->query.v)) && (!(u)->hash.has || STR_SHAPE((u)->hash.v)) && STR_SHAPE((u)->username) && STR_SHAPE((u)->password) && STR_SHAPE((u)->non_special_scheme))
/* C19 record invariant of ada::url that the setters must preserve: "A URL cannot have a username/password/port if its host is
 * null or the empty string, or its scheme is file" */
#define URL_REC(u) (!(!(u)->host.has || (u)->host.v.n == 0 || (u)->base.type == 6 /* FILE, checked against the dumped enumerator in the harness */) || \
                    ((u)->username.n == 0 && (u)->password.n == 0 && !(u)->port.has))
#define URL_HAS_CRED(u) ((u)->username.n > 0 || (u)->password.n > 0)
static inline _Bool str_eqv(const str_t *a, const str_t *b) { if (a->n != b->n) return 0; for (size_t i = 0; i < STR_CAP; i++) if (i < a->n && a->d[i] != b->d[i]) return 0; return 1; }
static inline _Bool url_eqv(struct url a, struct url b) {
  if (a.base.is_valid != b.base.is_valid || a.base.has_opaque_path != b.base.has_opaque_path || a.base.host_type != b.base.host_type || a.base.type != b.base.type) return 0;
  if (a.host.has != b.host.has || (a.host.has && !str_eqv(&a.host.v, &b.host.v))) return 0;
  if (a.query.has != b.query.has || (a.query.has && !str_eqv(&a.query.v, &b.query.v))) return 0;
  if (a.hash.has != b.hash.has || (a.hash.has && !str_eqv(&a.hash.v, &b.hash.v))) return 0;
  if (a.port.has != b.port.has || (a.port.has && a.port.v != b.port.v)) return 0;
  return str_eqv(&a.path, &b.path) && str_eqv(&a.username, &b.username) && str_eqv(&a.password, &b.password) && str_eqv(&a.non_special_scheme, &b.non_special_scheme);
}
/* an arbitrary ada::url as harness input (canonical _Bool bytes); witness mode: every field an explicit assignment; native replay:
 * the recorded values */
#if defined(NATIVE_REPLAY_DECLS)
#define ND_URL(u) struct url u; memset(&u, 0, sizeof u); W_INIT_##u
#elif defined(WITNESS)
#define ND_STR_(s) do { (s).n = nondet_size(); for (size_t i_ = 0; i_ <= STR_CAP; i_++) (s).d[i_] = nondet_char(); } while (0)
#define ND_URL(u) struct url u; u.base.is_valid = 1; u.base.has_opaque_path = nondet_bool(); u.base.host_type = nondet_int(); u.base.type = nondet_int(); \
  u.host.has = nondet_bool(); u.query.has = nondet_bool(); u.hash.has = nondet_bool(); u.port.has = nondet_bool(); u.port.v = nondet_u16(); \
  ND_STR_(u.host.v); ND_STR_(u.path); ND_STR_(u.query.v); ND_STR_(u.hash.v); ND_STR_(u.username); ND_STR_(u.password); ND_STR_(u.non_special_scheme)
#else
#define ND_URL(u) struct url u; u.base.is_valid = 1; u.base.has_opaque_path = nondet_bool(); u.host.has = nondet_bool(); u.query.has = nondet_bool(); u.hash.has = nondet_bool(); u.port.has = nondet_bool()
#endif
typedef struct { _Bool has; struct url_aggregator v; } result_url_aggregator_t;   /* ada::result<url_aggregator> = tl::expected<url_aggregator, errors> */
typedef struct { const char *data; size_t length; } ada_string;
typedef struct { const char *data; size_t length; } ada_owned_string;
typedef struct { uint32_t protocol_end, username_end, host_start, host_end, port, pathname_start, search_start, hash_start; } ada_url_components;
static inline result_url_aggregator_t *NEW__result_url_aggregator_t(result_url_aggregator_t v) {
  result_url_aggregator_t *p = (result_url_aggregator_t *)malloc(sizeof(result_url_aggregator_t));
  __CPROVER_assume(p != (void *)0);      /* allocation succeeds (global assumption) */
  *p = v; return p; }
/* std::vector<std::pair<std::string,std::string>> params: SIZE-ONLY abstraction (the number of pairs; contents are not modelled).
 * clear() -> 0, emplace_back(..) -> +1 (arguments are evaluated and dropped), reserve() -> nothing, size()/empty() */
typedef struct { size_t n; } vec_kv_t;
struct url_search_params { vec_kv_t params; };
#define OMITTED 0xffffffffu
/* ada::get_max_input_length(): a relaxed atomic load of the process-wide limit; modelled as an arbitrary but fixed value */
extern uint32_t g_max_input_length;
static inline uint32_t get_max_input_length(void) { return g_max_input_length; }
/* basic shape (type invariant) of an aggregator in the string model: what every member function may rely on for memory
 * safety -- the string is within capacity and NUL-terminated and no offset points outside it */
#define AGG_SHAPE(u) ((u)->base.type >= 0 && (u)->base.type <= 6 && (u)->base.host_type >= 0 && (u)->base.host_type <= 2 && (u)->buffer.n <= STR_CAP && (u)->buffer.d[(u)->buffer.n] == 0 && \
  (u)->components.protocol_end <= (u)->buffer.n && (u)->components.username_end <= (u)->buffer.n && (u)->components.host_start <= (u)->buffer.n && \
  (u)->components.host_end <= (u)->buffer.n && (u)->components.pathname_start <= (u)->buffer.n && \
  (u)->components.protocol_end <= (u)->components.username_end && (u)->components.username_end <= (u)->components.host_start && \
  (u)->components.host_start <= (u)->components.host_end && (u)->components.host_end <= (u)->components.pathname_start && \
  ((u)->components.search_start == OMITTED || (u)->components.search_start < (u)->buffer.n) && \
  ((u)->components.hash_start == OMITTED || (u)->components.hash_start < (u)->buffer.n) && \
  ((u)->components.search_start == OMITTED || (u)->components.pathname_start <= (u)->components.search_start) && \
  ((u)->components.hash_start == OMITTED || (u)->components.pathname_start <= (u)->components.hash_start) && \
  ((u)->components.search_start == OMITTED || (u)->components.hash_start == OMITTED || (u)->components.search_start < (u)->components.hash_start))
/* layout fact (see spec/agg_wf.h): the username is [protocol_end+2, username_end), a password exists iff host_start > username_end */
#define AGG_HAS_USER(u) ((u)->components.protocol_end + 2u < (u)->components.username_end)
#define AGG_HAS_PASS(u) ((u)->components.host_start > (u)->components.username_end)
#define AGG_HOST_EMPTY(u) ((u)->components.host_start == (u)->components.host_end)
/* the same facts about the pre-state inside a contract (CBMC's __CPROVER_old accepts lvalues only) */
#define AGG_HAS_USER_OLD(u) (__CPROVER_old((u)->components.protocol_end) + 2u < __CPROVER_old((u)->components.username_end))
#define AGG_HAS_PASS_OLD(u) (__CPROVER_old((u)->components.host_start) > __CPROVER_old((u)->components.username_end))
#define AGG_HOST_EMPTY_OLD(u) (__CPROVER_old((u)->components.host_start) == __CPROVER_old((u)->components.host_end))
#define AGG_HAS_CRED(u) (AGG_HAS_USER(u) || AGG_HAS_PASS(u))
/* record-level facts of an aggregator stated on offsets only (usable with abstract editors): number of host bytes, and the C19
 * invariant "no credentials and no port on a URL whose host is null or empty or whose scheme is file" (FILE = 6, checked against the
 * dumped enumerator in the harness) */
#define AGG_HOST_LEN(u) ((u)->components.host_end - (u)->components.host_start - (AGG_HAS_CRED(u) ? 1u : 0u))
#define AGG_HOST_NONEMPTY(u) ((u)->components.host_end > (u)->components.host_start + (AGG_HAS_CRED(u) ? 1u : 0u))
#define AGG_REC(u) ((!AGG_HAS_CRED(u) && (u)->components.port == OMITTED) || (AGG_HOST_NONEMPTY(u) && (u)->base.type != 6))
#define AGG_CRED_KEPT(u) (AGG_HAS_USER(u) == AGG_HAS_USER_OLD(u) && AGG_HAS_PASS(u) == AGG_HAS_PASS_OLD(u))
static inline _Bool agg_eqv(struct url_aggregator a, struct url_aggregator b) {
  if (a.base.is_valid != b.base.is_valid || a.base.has_opaque_path != b.base.has_opaque_path || a.base.host_type != b.base.host_type || a.base.type != b.base.type) return 0;
  if (a.components.protocol_end != b.components.protocol_end || a.components.username_end != b.components.username_end || a.components.host_start != b.components.host_start ||
      a.components.host_end != b.components.host_end || a.components.port != b.components.port || a.components.pathname_start != b.components.pathname_start ||
      a.components.search_start != b.components.search_start || a.components.hash_start != b.components.hash_start) return 0;
  if (a.buffer.n != b.buffer.n) return 0;
  for (size_t i = 0; i <= STR_CAP; i++) if (a.buffer.d[i] != b.buffer.d[i]) return 0;
  return 1;
}
#endif
