/* ghost facts about the two parses that can_parse() stands for (see harness/c08/can_parse_dispatch.c) */
const char *g_in_p;                 /* identity of the `input` view (the other view is the base) */
_Bool I_struct, B_struct;           /* structural validity (what a parse without any length limit decides) */
size_t I_hsize, B_hsize;            /* length of the normalized href such a parse builds */
#define LIMIT ((size_t)g_max_input_length)
