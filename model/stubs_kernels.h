/* Stand-ins for the host-delimiter kernels in *caller* obligations (modular verification: a caller is checked against
 * the callee's contract).  The contracts find_next_host_delimiter(_special).spec -- least index >= location holding a
 * delimiter, else size -- determine the return value uniquely; these bodies are that unique function.  The kernels
 * themselves are proved against the contract by C01.find_next_host_delimiter*.first (per ISA). */
size_t find_next_host_delimiter(sv_t view, unsigned long location) {
  for (size_t i = location; i < view.n; i++) if (HOST_DELIM(view.p[i])) return i;
  return view.n;
}
size_t find_next_host_delimiter_special(sv_t view, unsigned long location) {
  for (size_t i = location; i < view.n; i++) if (HOST_DELIM_SPECIAL(view.p[i])) return i;
  return view.n;
}
