/* ghost record of the abstract ada::parse / ada::can_parse used by the C17 entry-point obligations */
sv_t g_arg2; _Bool g_has_base; struct url_aggregator g_base_seen; result_url_aggregator_t g_res1, g_res2;
