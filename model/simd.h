/* /verif/model/simd.h -- loop-free C models of the x86 intrinsics used by ada-url/ada (TRUSTED BASE).
 * Lane semantics from the Intel SDM / Intrinsics Guide.  Loop-free (macro-unrolled) on purpose: a 16-iteration
 * loop per intrinsic made the DFCC-instrumented program explode in a design-time probe. */
#ifndef VERIF_MODEL_SIMD_H
#define VERIF_MODEL_SIMD_H
#include <stdint.h>
#include <stddef.h>

typedef struct { uint8_t b[16]; } m128i_t;
typedef struct { uint8_t b[64]; } m512i_t;

#define L16(M) M(0) M(1) M(2) M(3) M(4) M(5) M(6) M(7) M(8) M(9) M(10) M(11) M(12) M(13) M(14) M(15)
#define L64(M) L16(M) M(16) M(17) M(18) M(19) M(20) M(21) M(22) M(23) M(24) M(25) M(26) M(27) M(28) M(29) M(30) M(31) \
  M(32) M(33) M(34) M(35) M(36) M(37) M(38) M(39) M(40) M(41) M(42) M(43) M(44) M(45) M(46) M(47) \
  M(48) M(49) M(50) M(51) M(52) M(53) M(54) M(55) M(56) M(57) M(58) M(59) M(60) M(61) M(62) M(63)

static inline m128i_t _mm_setzero_si128(void) { m128i_t r;
#define M(i) r.b[i] = 0;
  L16(M)
#undef M
  return r; }
static inline m128i_t _mm_set1_epi8(char c) { m128i_t r;
#define M(i) r.b[i] = (uint8_t)c;
  L16(M)
#undef M
  return r; }
static inline m128i_t _mm_setr_epi8(char e0, char e1, char e2, char e3, char e4, char e5, char e6, char e7, char e8,
                                    char e9, char e10, char e11, char e12, char e13, char e14, char e15) {
  m128i_t r;
  r.b[0] = (uint8_t)e0; r.b[1] = (uint8_t)e1; r.b[2] = (uint8_t)e2; r.b[3] = (uint8_t)e3;
  r.b[4] = (uint8_t)e4; r.b[5] = (uint8_t)e5; r.b[6] = (uint8_t)e6; r.b[7] = (uint8_t)e7;
  r.b[8] = (uint8_t)e8; r.b[9] = (uint8_t)e9; r.b[10] = (uint8_t)e10; r.b[11] = (uint8_t)e11;
  r.b[12] = (uint8_t)e12; r.b[13] = (uint8_t)e13; r.b[14] = (uint8_t)e14; r.b[15] = (uint8_t)e15;
  return r; }
/* unaligned 16-byte load: reads exactly p[0..15] (so an over-read is a bounds/pointer violation) */
static inline m128i_t _mm_loadu_si128(const m128i_t *p) { const uint8_t *q = (const uint8_t *)p; m128i_t r;
#define M(i) r.b[i] = q[i];
  L16(M)
#undef M
  return r; }
static inline m128i_t _mm_cmpeq_epi8(m128i_t a, m128i_t b) { m128i_t r;
#define M(i) r.b[i] = (a.b[i] == b.b[i]) ? 0xFF : 0x00;
  L16(M)
#undef M
  return r; }
static inline m128i_t _mm_or_si128(m128i_t a, m128i_t b) { m128i_t r;
#define M(i) r.b[i] = a.b[i] | b.b[i];
  L16(M)
#undef M
  return r; }
static inline m128i_t _mm_and_si128(m128i_t a, m128i_t b) { m128i_t r;
#define M(i) r.b[i] = a.b[i] & b.b[i];
  L16(M)
#undef M
  return r; }
static inline m128i_t _mm_sub_epi8(m128i_t a, m128i_t b) { m128i_t r;
#define M(i) r.b[i] = (uint8_t)(a.b[i] - b.b[i]);
  L16(M)
#undef M
  return r; }
/* movemask: bit i = most significant bit of byte i; result has bits 16..31 zero */
static inline int _mm_movemask_epi8(m128i_t a) { unsigned r = 0;
#define M(i) r |= ((unsigned)(a.b[i] >> 7)) << i;
  L16(M)
#undef M
  return (int)r; }
/* pshufb: if bit 7 of the index byte is set the result byte is 0, else a[idx & 15] */
static inline m128i_t _mm_shuffle_epi8(m128i_t a, m128i_t idx) { m128i_t r;
#define M(i) r.b[i] = (idx.b[i] & 0x80) ? 0 : a.b[idx.b[i] & 0x0F];
  L16(M)
#undef M
  return r; }
/* psrlw: logical right shift of each 16-bit lane (little endian: lane k = b[2k] | b[2k+1]<<8) */
static inline m128i_t _mm_srli_epi16(m128i_t a, int imm) { m128i_t r;
#define M2(k) { unsigned w = (unsigned)a.b[2*k] | ((unsigned)a.b[2*k+1] << 8); w = (imm > 15 || imm < 0) ? 0 : (w >> imm); \
               r.b[2*k] = (uint8_t)(w & 0xFF); r.b[2*k+1] = (uint8_t)(w >> 8); }
  M2(0) M2(1) M2(2) M2(3) M2(4) M2(5) M2(6) M2(7)
#undef M2
  return r; }

/* ---- AVX-512 BW/VL (128-bit forms) */
static inline m128i_t _mm_maskz_loadu_epi8(uint16_t k, const void *p) { const uint8_t *q = (const uint8_t *)p; m128i_t r;
#define M(i) r.b[i] = ((k >> i) & 1) ? q[i] : 0;   /* masked-off lanes are not read (no fault) */
  L16(M)
#undef M
  return r; }
static inline uint16_t _mm_mask_cmpeq_epi8_mask(uint16_t k, m128i_t a, m128i_t b) { unsigned r = 0;
#define M(i) r |= ((unsigned)(((k >> i) & 1) && a.b[i] == b.b[i])) << i;
  L16(M)
#undef M
  return (uint16_t)r; }
static inline uint16_t _mm_mask_cmplt_epu8_mask(uint16_t k, m128i_t a, m128i_t b) { unsigned r = 0;
#define M(i) r |= ((unsigned)(((k >> i) & 1) && a.b[i] < b.b[i])) << i;
  L16(M)
#undef M
  return (uint16_t)r; }
static inline int _mm_popcnt_u32(unsigned v) { int c = 0;
#define M(i) c += (v >> i) & 1; c += (v >> (i + 16)) & 1;
  L16(M)
#undef M
  return c; }
static inline long long _mm_popcnt_u64(unsigned long long v) { return _mm_popcnt_u32((unsigned)v) + _mm_popcnt_u32((unsigned)(v >> 32)); }
static inline m512i_t _mm512_set1_epi8(char c) { m512i_t r;
#define M(i) r.b[i] = (uint8_t)c;
  L64(M)
#undef M
  return r; }
static inline m512i_t _mm512_maskz_loadu_epi8(uint64_t k, const void *p) { const uint8_t *q = (const uint8_t *)p; m512i_t r;
#define M(i) r.b[i] = ((k >> i) & 1) ? q[i] : 0;
  L64(M)
#undef M
  return r; }
static inline uint64_t _mm512_mask_cmpeq_epi8_mask(uint64_t k, m512i_t a, m512i_t b) { uint64_t r = 0;
#define M(i) r |= ((uint64_t)(((k >> i) & 1) && a.b[i] == b.b[i])) << i;
  L64(M)
#undef M
  return r; }

/* the mask-compare intrinsics are macros over these builtins: predicate 0 EQ, 1 LT, 2 LE, 4 NE, 5 NLT(GE), 6 NLE(GT) */
#define E__MM_CMPINT_ENUM__MM_CMPINT_EQ 0
#define E__MM_CMPINT_ENUM__MM_CMPINT_LT 1
#define E__MM_CMPINT_ENUM__MM_CMPINT_LE 2
#define E__MM_CMPINT_ENUM__MM_CMPINT_NE 4
#define E__MM_CMPINT_ENUM__MM_CMPINT_NLT 5
#define E__MM_CMPINT_ENUM__MM_CMPINT_NLE 6
#define CMPI_(x, y, p) ((p) == 0 ? (x) == (y) : (p) == 1 ? (x) < (y) : (p) == 2 ? (x) <= (y) : (p) == 4 ? (x) != (y) : (p) == 5 ? (x) >= (y) : (p) == 6 ? (x) > (y) : ((p) == 7))
static inline uint16_t __builtin_ia32_cmpb128_mask_model(m128i_t a, m128i_t b, int pred, uint16_t k) { unsigned r = 0;
#define M(i) r |= ((unsigned)(((k >> i) & 1) && CMPI_((int8_t)a.b[i], (int8_t)b.b[i], pred))) << i;
  L16(M)
#undef M
  return (uint16_t)r; }
static inline uint16_t __builtin_ia32_ucmpb128_mask_model(m128i_t a, m128i_t b, int pred, uint16_t k) { unsigned r = 0;
#define M(i) r |= ((unsigned)(((k >> i) & 1) && CMPI_(a.b[i], b.b[i], pred))) << i;
  L16(M)
#undef M
  return (uint16_t)r; }
static inline uint64_t __builtin_ia32_cmpb512_mask_model(m512i_t a, m512i_t b, int pred, uint64_t k) { uint64_t r = 0;
#define M(i) r |= ((uint64_t)(((k >> i) & 1) && CMPI_((int8_t)a.b[i], (int8_t)b.b[i], pred))) << i;
  L64(M)
#undef M
  return r; }
static inline uint64_t __builtin_ia32_ucmpb512_mask_model(m512i_t a, m512i_t b, int pred, uint64_t k) { uint64_t r = 0;
#define M(i) r |= ((uint64_t)(((k >> i) & 1) && CMPI_(a.b[i], b.b[i], pred))) << i;
  L64(M)
#undef M
  return r; }

/* ---- bit builtins: count trailing / leading zeros (undefined for 0, asserted) */
static inline int __builtin_ctzl_model(unsigned long x) {
  __CPROVER_assert(x != 0, "__builtin_ctzl argument non-zero");
  int n = 0;
  if ((x & 0xFFFFFFFFUL) == 0) { n += 32; x >>= 32; }
  if ((x & 0xFFFFUL) == 0) { n += 16; x >>= 16; }
  if ((x & 0xFFUL) == 0) { n += 8; x >>= 8; }
  if ((x & 0xFUL) == 0) { n += 4; x >>= 4; }
  if ((x & 0x3UL) == 0) { n += 2; x >>= 2; }
  if ((x & 0x1UL) == 0) { n += 1; }
  return n; }
static inline int __builtin_clz_model(unsigned x) {
  __CPROVER_assert(x != 0, "__builtin_clz argument non-zero");
  int n = 0;
  if ((x & 0xFFFF0000U) == 0) { n += 16; x <<= 16; }
  if ((x & 0xFF000000U) == 0) { n += 8; x <<= 8; }
  if ((x & 0xF0000000U) == 0) { n += 4; x <<= 4; }
  if ((x & 0xC0000000U) == 0) { n += 2; x <<= 2; }
  if ((x & 0x80000000U) == 0) { n += 1; }
  return n; }
#endif
