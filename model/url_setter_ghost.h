/* ghost: did the href fit the configured maximum before the setter ran (url setter skeleton obligations) */
_Bool g_size_ok_before;
