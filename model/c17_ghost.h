/* ghost cells for the C-API wrapper obligations: the abstract C++ methods record that they were called and what they saw */
int g_called; sv_t g_arg; sv_t g_ret_sv; _Bool g_ret_bool;
