from vlib.runner import Obl
OBLS = []
INC = ['spec/urlspec.h', 'spec/scan.h', 'spec/ref_host.h']
U64 = 'const unsigned long'
OBLS += [
    Obl('C01.get_host_delimiter_location.exact/b12', ['C01', 'C02'], 'B(12)', 'c10/hostloc.c', roots=['get_host_delimiter_location'],
        stop=['find_next_host_delimiter', 'find_next_host_delimiter_special'], bufn=12, unwind=14, includes=INC + ['model/stubs_kernels.h'], defines=['BUF_START=1'],
        solver='kissat', timeout=900, bound='input <= 12 bytes, loops fully unwound; the two kernels are taken by their (separately proved) contract',
        note='host end + found_colon equal the reference bracket-aware scan'),
    Obl('C10.is_ipv4.ends_in_number/b12', ['C10', 'C01', 'C02'], 'B(12)', 'c10/is_ipv4.c', roots=['is_ipv4'], bufn=12, unwind=14, includes=INC,
        solver='kissat', timeout=600, bound='host <= 12 bytes', note='is_ipv4 == ends-in-a-number checker of the Standard'),
    Obl('C10.verify_dns_length.exact/b14', ['C10', 'C02'], 'B(14)', 'c10/dns.c', roots=['verify_dns_length'], bufn=14, unwind=16, includes=INC, defines=['BUF_START=1'],
        solver='cadical', timeout=900, bound='domain <= 14 bytes with at most 2 dots', note='verify_dns_length == reference DNS length rule (byte-level: empty labels, trailing dot)'),
    Obl('C10.verify_dns_length.limits/b256', ['C10', 'C02'], 'B(256)', 'c10/dns_limits.c', roots=['verify_dns_length'], bufn=256, includes=INC, defines=['BUF_START=1'],
        unwindset=['verify_dns_length.0:7', 'ref_dns_length_ok.0:258', 'sv_find__c_z.0:258', 'harness.0:258'],
        solver='cadical', timeout=3000, tier='thorough', bound='<= 5 labels of one letter, label length <= 70, total <= 256 bytes',
        note='the 63-byte label limit and the 253/254 total limit equal the reference'),
    Obl('C10.parse_ipv4_number.value/b14', ['C10', 'C02'], 'B(14)', 'c10/ipv4_number.c', roots=['parse_ipv4_number'], bufn=14, unwind=16, includes=INC,
        solver='kissat', timeout=900, bound='token <= 14 bytes (longest in-range spellings: 0x + 8 hex, 0 + 11 octal, 10 decimal digits, plus overflow digits)',
        note='hex/octal/decimal IPv4 number parser == the Standard\'s, incl. overflow rejection and cursor position'),
    Obl('C10.try_parse_ipv4_fast.exact', ['C10', 'C18', 'C04', 'C02'], 'P#', 'c10/ipv4_fast.c', roots=['try_parse_ipv4_fast'], bufn=18, unwind=20, includes=INC,
        defines=['FASTFN=try_parse_ipv4_fast'], globals=[('ipv4_fast_fail', U64)], solver='kissat', timeout=900,
        note='domain-complete: all inputs of length 0..18 (the function rejects every length > 16 before reading): succeeds exactly on canonical dotted decimal and returns the Standard\'s address'),
    Obl('C01.trim_prune.exact/b12', ['C01', 'C02'], 'B(12)', 'c10/trim_prune.c', roots=['trim_c0_whitespace', 'prune_hash'], bufn=12, unwind=14, includes=INC,
        timeout=600, bound='input <= 12 bytes', note='trim_c0_whitespace and prune_hash equal their reference definitions'),
]
