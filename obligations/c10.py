from vlib.runner import Obl
OBLS = []
INC = ['spec/urlspec.h', 'spec/scan.h', 'spec/ref_host.h']
U64 = 'const unsigned long'
OBLS += [
    Obl('C01.get_host_delimiter_location.exact/b12', ['C01', 'C02'], 'B(12)', 'c10/hostloc.c', roots=['get_host_delimiter_location'],
        stop=['find_next_host_delimiter', 'find_next_host_delimiter_special'], bufn=12, unwind=14, includes=INC + ['model/stubs_kernels.h'], defines=['BUF_START=1'],
        solver='kissat', timeout=900, bound='input <= 12 bytes, loops fully unwound; the two kernels are taken by their (separately proved) contract',
        note='host end + found_colon equal the reference bracket-aware scan'),
    Obl('C10.is_ipv4.ends_in_number/b12', ['C10', 'C01', 'C02'], 'B(12)', 'c10/is_ipv4.c', roots=['is_ipv4'], bufn=12, unwind=14, includes=INC,
        solver='kissat', timeout=600, bound='host <= 12 bytes', note='is_ipv4 == ends-in-a-number checker of the Standard'),
    Obl('C10.verify_dns_length.exact/b14', ['C10', 'C02'], 'B(14)', 'c10/dns.c', roots=['verify_dns_length'], bufn=14, unwind=16, includes=INC, defines=['BUF_START=1'],
        solver='cadical', timeout=900, bound='domain <= 14 bytes with at most 2 dots', note='verify_dns_length == reference DNS length rule (byte-level: empty labels, trailing dot)'),
    # (C10.verify_dns_length.limits/b256 -- the 63 / 253 limits on shaped inputs up to 256 bytes -- ends in solver errors / out of memory
    #  on this machine and was removed; the limits are covered up to 14 bytes by the obligation above)
    Obl('C10.parse_ipv4_number.value/b14', ['C10', 'C02'], 'B(14)', 'c10/ipv4_number.c', roots=['parse_ipv4_number'], bufn=14, unwind=16, includes=INC,
        solver='kissat', timeout=900, bound='token <= 14 bytes (longest in-range spellings: 0x + 8 hex, 0 + 11 octal, 10 decimal digits, plus overflow digits)',
        note='hex/octal/decimal IPv4 number parser == the Standard\'s, incl. overflow rejection and cursor position'),
    Obl('C10.try_parse_ipv4_fast.exact', ['C10', 'C18', 'C04', 'C02'], 'P#', 'c10/ipv4_fast.c', roots=['try_parse_ipv4_fast'], bufn=18, unwind=20, includes=INC,
        defines=['FASTFN=try_parse_ipv4_fast'], globals=[('ipv4_fast_fail', U64)], solver='kissat', timeout=900,
        note='domain-complete: all inputs of length 0..18 (the function rejects every length > 16 before reading): succeeds exactly on canonical dotted decimal and returns the Standard\'s address'),
    Obl('C01.trim_prune.exact/b12', ['C01', 'C02'], 'B(12)', 'c10/trim_prune.c', roots=['trim_c0_whitespace', 'prune_hash'], bufn=12, unwind=14, includes=INC,
        timeout=600, bound='input <= 12 bytes', note='trim_c0_whitespace and prune_hash equal their reference definitions'),
]
OBLS += [
    Obl('C10.serializers.ipv4.roundtrip', ['C10', 'C05', 'C02'], 'P#', 'c10/ser_ipv4.c', roots=['serializers_ipv4', 'try_parse_ipv4_fast'], includes=INC, unwind=20,
        defines=['STR_CAP=16'], globals=[('ipv4_fast_fail', U64)], solver='kissat', timeout=900,
        note='all 2^32 addresses: serializer == Standard\'s dotted decimal, and the real parser inverts it'),
    Obl('C10.serializers.ipv6.exact', ['C10', 'C05', 'C02'], 'P#', 'c10/ser_ipv6.c', roots=['serializers_ipv6'], includes=INC, unwind=10, unwindset=['str_ctor__z_c.0:43', 'str_resize__z_c.0:43'],
        defines=['STR_CAP=42'], solver='kissat', timeout=3000,
        note='all 2^128 addresses: real serializer == the Standard\'s IPv6 serializer (first longest zero run compressed, lower-case hex, no leading zeros)'),
]
OBLS.append(Obl('C10.parse_host.host_type_truthful', ['C10', 'C04', 'C19', 'C02'], 'B(8)', 'auto', roots=['agg_parse_host'], enforce='agg_parse_host',
                replace=['agg_parse_ipv6', 'agg_parse_ipv4', 'agg_parse_opaque_host', 'agg_update_base_hostname', 'unicode_to_ascii'],
                specs={'agg_parse_host': 'skel/agg_parse_host.hosttype.spec', 'agg_update_base_hostname': 'skel/agg_update_base_hostname.spec',
                       'agg_parse_ipv6': 'skel/agg_parse_ipv6.hosttype.spec', 'agg_parse_ipv4': 'skel/agg_parse_ipv4.hosttype.spec',
                       'agg_parse_opaque_host': 'skel/agg_parse_opaque_host.hosttype.spec', 'unicode_to_ascii': 'skel/unicode_to_ascii.spec'},
                bufn=8, unwind=20, defines=['STR_CAP=8', 'BUF_START=1'], includes=['spec/urlspec.h', 'spec/scan.h', 'model/hosttype_ghost.h'],
                globals=[('omitted', 'const unsigned int'), ('ipv4_fast_fail', U64)], enums=[('ada::scheme::type', 'NOT_SPECIAL')], solver='cadical', timeout=1200,
                object_bits=11, bound='host <= 8 bytes, string capacity 8',
                note='after parse_host succeeds host_type == kind of the host written (IPv6 iff bracketed, IPv4 iff special and an IPv4 parser accepted it, else default), regardless of the previous kind'))

from obligations.c09 import ABSTRACT as _ABS, SPECS as _SP
_sp = dict(_SP); _sp['parse_url_impl_agg_1'] = 'parse_url_impl_agg_1.hosttype.spec'
_sp['agg_update_host_to_base_host'] = 'skel/agg_update_host_to_base_host.hosttype.spec'
_sp['agg_parse_host'] = 'skel/agg_parse_host.frombase.spec'
_sp['agg_update_base_hostname'] = 'skel/agg_update_base_hostname.frombase.spec'
OBLS.append(Obl('C10.parse_url_impl.host_type_from_base', ['C10', 'C04', 'C02'], 'Pinf', 'c10/parse_hosttype_base.c', roots=['parse_url_impl_agg_1'],
                stub=_ABS, specs=_sp, bufn=8, defines=['STR_CAP=6', 'BUF_START=1'], includes=['spec/urlspec.h', 'spec/scan.h', 'model/hosttype_ghost.h'],
                globals=[('omitted', 'const unsigned int')], enums=[('ada::state', x) for x in ('PORT', 'FRAGMENT', 'RELATIVE_SCHEME', 'RELATIVE_SLASH', 'SPECIAL_RELATIVE_OR_AUTHORITY', 'AUTHORITY')],
                solver='cadical', timeout=3000, object_bits=12, unwind=12,
                note='parser state machine (loops cut, sub-parsers abstract): host taken over from the base => host_type taken over too, at every exit'))
