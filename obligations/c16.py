from vlib.runner import Obl
OBLS = []
INC = ['spec/urlspec.h', 'spec/scan.h']
STOPS = ['idna_map_out', 'idna_normalize', 'idna_is_already_nfc', 'idna_is_label_valid', 'idna_utf32_to_punycode', 'idna_punycode_to_utf32', 'idna_verify_punycode',
         'idna_utf8_to_utf32', 'idna_utf32_length_from_utf8', 'idna_append_ascii_label', 'idna_is_ace_prefix', 'idna_is_ascii_u32']
OBLS.append(Obl('C16.to_ascii.ascii_path/b20', ['C16', 'C06', 'C02'], 'B(20)', 'c16/to_ascii_ascii.c', roots=['idna_to_ascii_out'], stop=STOPS, bufn=20, unwind=22,
                defines=['STR_CAP=20', 'BUF_START=1'], includes=INC, solver='cadical', timeout=1200, bound='ASCII domain <= 20 bytes (covers the 8-byte SWAR loop twice + tail)',
                note='IDNA entry point on ASCII input = ASCII lower-casing (real is_ascii, from_ascii_to_ascii, ascii_map); idempotent; the non-ASCII path is unreachable here'))
OBLS.append(Obl('C06.idna_bytes.exact', ['C06', 'C16', 'C02'], 'P#', 'c16/idna_bytes.c', roots=['idna_is_forbidden_domain_code_point', 'idna_char_to_digit_value', 'idna_digit_to_char'],
                includes=INC, timeout=300, note='idna forbidden-domain table == Standard (256 bytes); punycode digit maps are inverse bijections on 0..35'))
