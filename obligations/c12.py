from vlib.runner import Obl
OBLS = []
OBLS.append(Obl('C12.sort.comparator.utf16/k5', ['C12', 'C02'], 'B(5)', 'c12/comparator.c', roots=['usp_sort'], defines=['STR_CAP=5', 'KEYN=5'], unwind=7,
                solver='cadical', timeout=1800, bound='keys <= 5 bytes (covers 1-4 byte sequences, surrogate pairs vs BMP ordering)',
                note='sort comparator == less-than on UTF-16 code units for well-formed UTF-8 keys'))
OBLS.append(Obl('C12.sort.comparator.strict_weak_order/k3', ['C12', 'C02'], 'B(3)', 'c12/comparator.c', roots=['usp_sort'], defines=['STR_CAP=3', 'KEYN=3', 'ORDER_ONLY=1'], unwind=5,
                solver='cadical', timeout=1800, bound='three arbitrary byte-string keys <= 3 bytes',
                note='sort comparator is a strict weak ordering on arbitrary bytes (precondition of std::stable_sort)'))
