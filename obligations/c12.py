from vlib.runner import Obl
OBLS = []
OBLS.append(Obl('C12.sort.comparator.utf16/k5', ['C12', 'C02'], 'B(5)', 'c12/comparator.c', roots=['usp_sort'], defines=['STR_CAP=5', 'KEYN=5'], unwind=7,
                solver='cadical', timeout=1800, bound='keys <= 5 bytes (covers 1-4 byte sequences, surrogate pairs vs BMP ordering)',
                note='sort comparator == less-than on UTF-16 code units for well-formed UTF-8 keys'))
OBLS.append(Obl('C12.sort.comparator.strict_weak_order/k3', ['C12', 'C02'], 'B(3)', 'c12/comparator.c', roots=['usp_sort'], defines=['STR_CAP=3', 'KEYN=3', 'ORDER_ONLY=1'], unwind=5,
                solver='cadical', timeout=1800, bound='three arbitrary byte-string keys <= 3 bytes',
                note='sort comparator is a strict weak ordering on arbitrary bytes (precondition of std::stable_sort)'))

OBLS.append(Obl('C12.reset_initialize_append.size/b8', ['C12', 'C02'], 'B(8)', 'c12/list_size.c', roots=['usp_reset', 'usp_append', 'usp_size'], stub=['form_urlencoded_decode'], bufn=8, unwind=10,
                defines=['STR_CAP=8', 'BUF_START=1'], includes=['spec/urlspec.h', 'spec/scan.h'], solver='cadical', timeout=1800, object_bits=12, bound='input <= 8 bytes; list abstracted to its size',
                note='reset / initialize / append: number of pairs == the form-urlencoded parser\'s (one per non-empty sequence between &, one leading ? removed); reset forgets the old list'))
