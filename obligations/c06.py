from vlib.runner import Obl
OBLS = []
INC = ['spec/urlspec.h', 'spec/scan.h']
OBLS.append(Obl('C06.to_lower_ascii.exact', ['C06', 'C16', 'C01', 'C02'], 'Pinf', 'auto', roots=['to_lower_ascii'], specs={'to_lower_ascii': 'to_lower_ascii.spec'},
                enforce='to_lower_ascii', loop_contracts=True, includes=INC, solver='kissat', timeout=900,
                note='in-place ASCII lower-casing (SWAR 8 bytes + tail): A-Z -> a-z, all other bytes unchanged, returns "all ASCII"; any length'))

OBLS.append(Obl('C06.punycode.adapt.exact/d20n16', ['C06', 'C16', 'C02'], 'B(2^20)', 'c06/adapt.c', roots=['idna_adapt', 'idna_digit_to_char', 'idna_char_to_digit_value'], unwind=9,
                defines=['ADAPT_BOUND=1', 'ADAPT_DBITS=20', 'ADAPT_NMAX=16'], solver='kissat', timeout=900, bound='delta < 2^20, numpoints <= 16',
                note='Punycode bias adaptation == RFC 3492 6.1; digit maps == RFC 3492 5 (the unbounded query -- 31-bit division by a symbolic 31-bit divisor -- did not '
                     'finish in 30 min with kissat)'))
