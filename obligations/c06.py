from vlib.runner import Obl
OBLS = []
INC = ['spec/urlspec.h', 'spec/scan.h']
OBLS.append(Obl('C06.to_lower_ascii.exact', ['C06', 'C16', 'C01', 'C02'], 'Pinf', 'auto', roots=['to_lower_ascii'], specs={'to_lower_ascii': 'to_lower_ascii.spec'},
                enforce='to_lower_ascii', loop_contracts=True, includes=INC, solver='kissat', timeout=900,
                note='in-place ASCII lower-casing (SWAR 8 bytes + tail): A-Z -> a-z, all other bytes unchanged, returns "all ASCII"; any length'))
