from vlib.runner import Obl
OBLS = []
INC = ['spec/urlspec.h', 'spec/scan.h', 'model/canparse_ghost.h']
OBLS.append(Obl('C08.can_parse.dispatch', ['C08', 'C09'], 'P#', 'c08/can_parse_dispatch.c', roots=['can_parse'],
                stub=['try_can_parse_absolute_fast', 'parse_url_impl_agg_1', 'parse_url_impl_agg_0'],
                specs={'try_can_parse_absolute_fast': 'skel/try_can_parse_absolute_fast.canparse.spec', 'parse_url_impl_agg_1': 'skel/parse_url_impl.canparse.spec',
                       'parse_url_impl_agg_0': 'skel/parse_url_impl0.canparse.spec'},
                bufn=4, defines=['STR_CAP=4'], includes=INC, globals=[('omitted', 'const unsigned int'), ('url_aggregator_default', '@default')], timeout=600,
                note='loop-free, all lengths and all limits: every return of can_parse equals the conjunction of the two parses, given the callees\' contracts and the '
                     'normalization expansion bound 3n + slack'))
OBLS.append(Obl('C08.try_can_parse_absolute_fast.sound/b11', ['C08', 'C02'], 'B(11)', 'c08/fast_sound.c', roots=['try_can_parse_absolute_fast'], bufn=11, unwind=13,
                defines=['BUF_START=1'], includes=['spec/urlspec.h', 'spec/scan.h', 'spec/pathspec.h', 'spec/ref_host.h', 'spec/ref_canparse.h'],
                globals=[('ipv4_fast_fail', 'const unsigned long')], enums=[('ada::scheme::type', x) for x in ('HTTP', 'NOT_SPECIAL', 'HTTPS', 'WS', 'FTP', 'WSS', 'FILE')],
                solver='cadical', timeout=3000, bound='input <= 11 bytes',
                note='fast validator of can_parse: every definite answer equals the Standard-derived validity (scheme, host incl. IPv4, port rules)'))
