from vlib.runner import Obl
OBLS = [Obl('C15.char_class_table.sound', ['C15', 'C01'], 'P#', 'tab/char_class_table.c', globals=[('char_class_table', 'const std::array<unsigned char, 256>')],
            includes=['spec/urlspec.h', 'spec/scan.h'], timeout=120,
            note='URLPattern "simple value" shortcut classes are subsets of what the URL parser leaves unchanged (all 256 bytes)')]

INC15 = ['spec/urlspec.h', 'spec/scan.h', 'spec/ref_pct.h']
for nm, roots, d, bn, gl in (('userinfo', ['canonicalize_username', 'canonicalize_password'], 'CANON_USERINFO=1', 4, [('USERINFO_PERCENT_ENCODE', 'const unsigned char[32]')]),
                             ('port', ['canonicalize_port'], 'CANON_PORT=1', 7, []), ('protocol', ['canonicalize_protocol'], 'CANON_PROTOCOL=1', 6, []),
                             ('ipv6_hostname', ['canonicalize_ipv6_hostname'], 'CANON_IPV6=1', 6, []),
                             ('search', ['canonicalize_search'], 'CANON_SEARCH=1', 4, [('QUERY_PERCENT_ENCODE', 'const unsigned char[32]')]),
                             ('hash', ['canonicalize_hash'], 'CANON_HASH=1', 4, [('FRAGMENT_PERCENT_ENCODE', 'const unsigned char[32]')])):
    OBLS.append(Obl('C15.canonicalize_%s.standard/b%d' % (nm, bn), ['C15', 'C02'], 'B(%d)' % bn, 'c15/canon.c', roots=roots, bufn=bn, unwind=3 * bn + 4,
                    defines=['STR_CAP=%d' % (3 * bn + 1), 'BUF_START=1', d], includes=INC15, globals=gl, solver='cadical', timeout=1200, bound='input <= %d bytes' % bn,
                    note='URLPattern canonicaliser == the URLPattern Standard\'s definition (URL parser with state override / URL encode set), incl. when it fails'))
