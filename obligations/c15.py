from vlib.runner import Obl
OBLS = [Obl('C15.char_class_table.sound', ['C15', 'C01'], 'P#', 'tab/char_class_table.c', globals=[('char_class_table', 'const std::array<unsigned char, 256>')],
            includes=['spec/urlspec.h', 'spec/scan.h'], timeout=120,
            note='URLPattern "simple value" shortcut classes are subsets of what the URL parser leaves unchanged (all 256 bytes)')]
