from vlib.runner import Obl
OBLS = []
INC = ['spec/urlspec.h', 'spec/scan.h']


def both(name, props, harness, note, quick_timeout=300, thorough_timeout=1500, bufn=64, unbounded=True, **kw):
    """register a scanner obligation twice: bounded-buffer (quick, graded B) and unbounded (thorough, graded Pinf)"""
    OBLS.append(Obl(name + '/b%d' % bufn, props, 'B(%d)' % bufn, harness, bufn=bufn, bound='view length <= %d bytes (loop contracts inductive; object size fixed)' % bufn,
                    timeout=quick_timeout, tier='quick', note=note, **kw))
    if unbounded:
        OBLS.append(Obl(name, props, 'Pinf', harness, timeout=thorough_timeout, tier='thorough', solver='kissat', note=note + ' -- any length', **kw))


for fn in ('find_next_host_delimiter', 'find_next_host_delimiter_special'):
    both('C01.%s.first@sse2' % fn, ['C01', 'C18', 'C02'], 'auto', roots=[fn],
         specs={fn: fn + '.spec'}, enforce=fn, loop_contracts=True, defines=['FN=' + fn], includes=INC,
         # the symbolic-size (any length) variant of the _special kernel needs a 3.5 GB CNF and more than the 14 GB memory limit: not registered
         unbounded=(fn == 'find_next_host_delimiter'),
         note='returns the least index >= location holding a host delimiter, else size; SSE2 kernel incl. overlapping tail reload')

PINC = INC + ['spec/pathspec.h']
ENUM_SCHEME = [('ada::scheme::type', x) for x in ('HTTP', 'NOT_SPECIAL', 'HTTPS', 'WS', 'FTP', 'WSS', 'FILE')]
for fn, props, unwind, note in [
    ('is_windows_drive_letter', ['C01', 'C02'], None, 'equals the Standard\'s "starts with a Windows drive letter"'),
    ('is_normalized_windows_drive_letter', ['C01', 'C02'], None, 'equals the Standard\'s normalized Windows drive letter'),
    ('is_single_dot_path_segment', ['C01', 'C02'], 8, '"." or ASCII case-insensitive "%2e"'),
    ('is_double_dot_path_segment', ['C01', 'C02'], 8, '".." / ".%2e" / "%2e." / "%2e%2e" ASCII case-insensitively, via the real hash table'),
    ('has_hex_prefix', ['C01', 'C10', 'C02'], None, '"0x"/"0X" prefix'),
    ('scheme_is_special', ['C01', 'C19', 'C02'], 8, 'true exactly for http https ws wss ftp file (perfect hash + string compare)'),
    ('get_scheme_type', ['C01', 'C19', 'C02'], None, 'scheme type exactly for the six special schemes (perfect hash, branchless_load5, scheme_keys)'),
    ('scheme_get_special_port_sv', ['C01', 'C19', 'C05', 'C02'], None, 'default ports 80/443/80/443/21/0'),
]:
    OBLS.append(Obl('C01.%s.exact' % fn, props, 'P#', 'auto', roots=[fn], specs={fn: fn + '.spec'}, enforce=fn,
                    defines=['FN=' + fn], includes=PINC, unwind=unwind, timeout=300, note=note + '; input of any length (symbolic-size object), loops bounded by the function\'s own length tests and fully unwound',
                    enums=ENUM_SCHEME if 'scheme' in fn else ()))

for fn in ('find_authority_delimiter', 'find_authority_delimiter_special'):
    both('C01.%s.first' % fn, ['C01', 'C02'], 'auto', roots=[fn], specs={fn: fn + '.spec'}, enforce=fn, loop_contracts=True, includes=INC,
         note='returns the least index holding an authority delimiter (@ / ? and \\ for special), else size')
both('C01.path_signature.covers', ['C01', 'C11', 'C02'], 'auto', roots=['path_signature'], specs={'path_signature': 'path_signature.spec'},
     enforce='path_signature', loop_contracts=True, includes=INC,
     note='every byte\'s path_signature_table flags are contained in the result; 8-byte unrolled loop + tail')
for fn in ('contains_forbidden_domain_code_point_or_upper', 'contains_forbidden_domain_code_point'):
    OBLS.append(Obl('C01.%s.covers' % fn, ['C01', 'C10', 'C02'], 'Pinf', 'auto', roots=[fn], specs={fn: fn + '.spec'}, enforce=fn,
                    loop_contracts=True, includes=INC, solver='kissat', timeout=600,
                    note='result contains the class of every byte (4-byte unrolled loop + tail), any length'))

both('C01.has_tabs_or_newline.complete@sse2', ['C01', 'C18', 'C02'], 'auto', roots=['has_tabs_or_newline'],
     specs={'has_tabs_or_newline': 'has_tabs_or_newline.spec'}, enforce='has_tabs_or_newline', loop_contracts=True, includes=INC,
     note='returns false only if no tab/LF/CR occurs anywhere (SSE2 kernel: aligned blocks + overlapping tail; short inputs via any_of)')

OBLS.append(Obl('C01.shorten_path.twin/b12', ['C01', 'C04', 'C02'], 'B(12)', 'c01/shorten_path.c', roots=['shorten_path_sv', 'shorten_path_str'], bufn=12, unwind=14,
                defines=['STR_CAP=12', 'BUF_START=1'], includes=['spec/urlspec.h', 'spec/scan.h'], enums=[('ada::scheme::type', 'FILE')], solver='cadical', timeout=900,
                bound='path <= 12 bytes', note='both shorten_path overloads == the Standard\'s "shorten a url\'s path" (lone normalized drive letter of a file URL is kept)'))

OBLS.append(Obl('C01.try_parse_simple_absolute<url_aggregator>.standard/b12', ['C01', 'C10', 'C05', 'C19', 'C02'], 'B(12)', 'c01/fast_path.c',
                roots=['try_parse_simple_absolute_agg', 'agg_validate'], bufn=12, unwind=15, defines=['STR_CAP=13', 'BUF_START=1'],
                includes=['spec/urlspec.h', 'spec/scan.h', 'spec/agg_wf.h'], globals=[('omitted', 'const unsigned int'), ('url_aggregator_default', '@default')],
                enums=[('ada::scheme::type', 'HTTP'), ('ada::scheme::type', 'HTTPS')], solver='kissat', timeout=3000,
                bound='input <= 12 bytes',
                note='fast path for absolute http(s) URLs: accepted => the input is in the class the Standard parses to exactly the object built (plain lower-cased domain that '
                     'does not end in a number, no xn-- label, no dot segments, nothing to encode), offsets partition the href'))

OBLS.append(Obl('C01.try_parse_simple_absolute<url>.standard/b12', ['C01', 'C10', 'C05', 'C04', 'C02'], 'B(12)', 'c01/fast_path.c',
                roots=['try_parse_simple_absolute_url'], bufn=12, unwind=15, defines=['STR_CAP=13', 'BUF_START=1', 'FAST_URL=1'],
                includes=['spec/urlspec.h', 'spec/scan.h', 'spec/agg_wf.h'], globals=[('omitted', 'const unsigned int'), ('url_default', '@default')],
                enums=[('ada::scheme::type', 'HTTP'), ('ada::scheme::type', 'HTTPS')], solver='kissat', timeout=3000, bound='input <= 12 bytes',
                note='ada::url twin of the fast-path obligation: same accepted input class, same URL field by field'))
