from vlib.runner import Obl
OBLS = []
INC = ['spec/urlspec.h', 'spec/scan.h']
EDITORS = ['agg_update_base_username', 'agg_update_base_password', 'agg_update_base_hostname', 'agg_update_base_port', 'agg_clear_port',
           'agg_update_base_pathname', 'agg_update_base_search_set', 'agg_update_base_search', 'agg_update_unencoded_base_hash', 'agg_clear_search', 'agg_clear_hash',
           'agg_clear_pathname', 'agg_clear_hostname', 'agg_add_authority_slashes_if_needed', 'agg_delete_dash_dot', 'agg_parse_host', 'agg_parse_port',
           'agg_parse_scheme_with_colon_1', 'agg_parse_path', 'percent_encode_idx', 'strip_trailing_spaces_from_opaque_path_agg', 'agg_set_port']
SETTERS = {
    'agg_set_username': (False, ['agg_update_base_username', 'percent_encode_idx']),
    'agg_set_password': (False, ['agg_update_base_password', 'percent_encode_idx']),
    'agg_set_port': (False, ['agg_clear_port', 'agg_parse_port1']),
    'agg_set_pathname': (False, ['agg_clear_pathname', 'agg_parse_path']),
    'agg_set_search': (True, ['agg_clear_search', 'agg_update_base_search_set', 'strip_trailing_spaces_from_opaque_path_agg']),
    'agg_set_hash': (True, ['agg_update_unencoded_base_hash', 'strip_trailing_spaces_from_opaque_path_agg']),
    'agg_set_protocol': (False, ['agg_parse_scheme_with_colon_1']),
    'agg_set_host_or_hostname_0': (False, ['get_host_delimiter_location', 'agg_parse_host', 'agg_delete_dash_dot', 'agg_set_port', 'agg_clear_hostname', 'agg_add_authority_slashes_if_needed']),
    'agg_set_host_or_hostname_1': (False, ['get_host_delimiter_location', 'agg_parse_host', 'agg_delete_dash_dot', 'agg_set_port', 'agg_clear_hostname', 'agg_add_authority_slashes_if_needed']),
}
for fn, (void, repl) in SETTERS.items():
    OBLS.append(Obl('C03.%s.atomic_size' % fn.replace('agg_', 'url_aggregator.'), ['C03', 'C09', 'C19', 'C02'], 'B(6)', 'c03/setter.c', roots=[fn], replace=repl, specs={c: 'skel/%s.spec' % c for c in repl},
                    bufn=6, unwind=10, defines=['STR_CAP=6', 'BUF_START=1', 'SETTER=' + fn] + (['SETTER_VOID=1'] if void else []) + (['SETTER_CRED=1'] if fn in ('agg_set_username', 'agg_set_password', 'agg_set_port') else []), includes=INC,
                    enums=[('ada::scheme::type', 'FILE')],
                    globals=[('omitted', 'const unsigned int')], solver='cadical', timeout=900, object_bits=11, bound='input <= 6 bytes, string capacity 6; callee effects arbitrary',
                    note='setter skeleton with abstract (arbitrary-effect) editors: failure restores the object, the length limit holds at every exit, is_valid kept; '
                         'input <= 6 bytes only drives the control flow (the argument about callees is unbounded)'))

# the skeleton contracts that the setter obligations rely on, proved on the real callees (their own callees abstract)
OBLS.append(Obl('C03.parse_scheme_with_colon<true>.refusal_atomic', ['C03', 'C19', 'C02'], 'B(6)', 'auto', roots=['agg_parse_scheme_with_colon_1'],
                enforce='agg_parse_scheme_with_colon_1', replace=['agg_set_scheme', 'agg_set_scheme_from_view_with_colon', 'agg_clear_port'],
                specs=dict({c: 'skel/%s.spec' % c for c in ['agg_parse_scheme_with_colon_1', 'agg_set_scheme', 'agg_set_scheme_from_view_with_colon', 'agg_clear_port']}),
                bufn=6, unwind=10, defines=['STR_CAP=6', 'BUF_START=1'], includes=INC, globals=[('omitted', 'const unsigned int')], solver='cadical', timeout=900,
                object_bits=11, bound='scheme <= 6 bytes', note='the state-override scheme parser either succeeds or returns false before writing anything; is_valid untouched'))
OBLS.append(Obl('C03.parse_host.success_valid', ['C03', 'C10', 'C02'], 'B(6)', 'auto', roots=['agg_parse_host'], enforce='agg_parse_host',
                replace=['agg_parse_ipv6', 'agg_parse_ipv4', 'agg_parse_opaque_host', 'agg_update_base_hostname', 'unicode_to_ascii'],
                specs=dict({'agg_parse_host': 'skel/agg_parse_host.spec', 'agg_update_base_hostname': 'skel/agg_update_base_hostname.spec',
                            'agg_parse_ipv6': 'skel/agg_parse_ipvx.spec', 'agg_parse_ipv4': 'skel/agg_parse_ipvx.spec', 'agg_parse_opaque_host': 'skel/agg_parse_ipvx.spec',
                            'unicode_to_ascii': 'skel/unicode_to_ascii.spec'}),
                bufn=6, unwind=10, defines=['STR_CAP=8', 'BUF_START=1'], includes=INC, globals=[('omitted', 'const unsigned int')], solver='cadical', timeout=900,
                object_bits=11, bound='host <= 6 bytes', note='parse_host returning true leaves the URL valid (callee host parsers: success keeps is_valid)'))
OBLS.append(Obl('C03.parse_scheme_with_colon<false>.always_succeeds', ['C03', 'C09', 'C02'], 'B(6)', 'auto', roots=['agg_parse_scheme_with_colon_0'],
                enforce='agg_parse_scheme_with_colon_0', replace=['agg_set_scheme', 'agg_set_scheme_from_view_with_colon'],
                specs=dict({c: 'skel/%s.spec' % c for c in ['agg_parse_scheme_with_colon_0', 'agg_set_scheme', 'agg_set_scheme_from_view_with_colon']}),
                bufn=6, unwind=10, defines=['STR_CAP=6', 'BUF_START=1'], includes=INC, globals=[('omitted', 'const unsigned int')], solver='cadical', timeout=900,
                object_bits=11, bound='scheme <= 6 bytes', note='the parser-time scheme setter always returns true and does not touch is_valid / has_opaque_path (skeleton contract used by the parser obligations)'))

# ---- ada::url twins of the host setters (skeleton obligations with the C19 record invariant)
for fn in ('url_set_host_or_hostname_0', 'url_set_host_or_hostname_1'):
    repl = ['url_parse_host', 'url_set_port', 'get_host_delimiter_location']
    OBLS.append(Obl('C03.%s.atomic_record_size' % fn.replace('url_', 'url.'), ['C03', 'C09', 'C19', 'C04', 'C02'], 'B(6)', 'c03/url_setter.c', roots=[fn, 'url_get_href_size'], stub=repl,
                    specs={'url_parse_host': 'skel/url_parse_host.spec', 'url_set_port': 'skel/url_set_port.spec', 'get_host_delimiter_location': 'skel/get_host_delimiter_location.spec'},
                    bufn=6, unwind=10, defines=['STR_CAP=6', 'BUF_START=1', 'SETTER=' + fn], includes=INC + ['model/url_setter_ghost.h'], enums=[('ada::scheme::type', 'FILE')],
                    solver='cadical', timeout=1800, object_bits=11, bound='input <= 6 bytes, every string <= 6 bytes; sub-parsers abstract',
                    note='ada::url host setter skeleton: failure restores the object, the credentials/port record invariant is preserved, the length limit holds at every exit'))

# the skeleton contract of url::parse_host that the ada::url host setter obligations rely on, proved on the real function
_uh = ['url_parse_ipv6', 'url_parse_ipv4', 'url_parse_opaque_host', 'unicode_to_ascii']
OBLS.append(Obl('C03.url.parse_host.skeleton', ['C03', 'C10', 'C19', 'C02'], 'B(8)', 'auto', roots=['url_parse_host'], enforce='url_parse_host', replace=_uh,
                specs=dict({c: 'skel/%s.spec' % c for c in _uh}, url_parse_host='skel/url_parse_host.spec'),
                bufn=8, unwind=20, defines=['STR_CAP=8', 'BUF_START=1'], includes=INC, globals=[('omitted', 'const unsigned int'), ('ipv4_fast_fail', 'const unsigned long')],
                enums=[('ada::scheme::type', 'NOT_SPECIAL')], solver='cadical', timeout=1800, object_bits=11, bound='host <= 8 bytes',
                note='url::parse_host: success => valid, host present and non-empty (unless the input was empty), credentials / port / scheme untouched; failure clears is_valid'))

OBLS.append(Obl('C03.url.set_port.skeleton', ['C03', 'C19', 'C09', 'C02'], 'B(6)', 'auto', roots=['url_set_port', 'url_get_href_size'], enforce='url_set_port', replace=['url_parse_port1'],
                specs={'url_set_port': 'skel/url_set_port.spec', 'url_parse_port1': 'skel/url_parse_port.spec'},
                bufn=6, unwind=10, defines=['STR_CAP=6', 'BUF_START=1'], includes=INC + ['model/url_setter_ghost.h'], enums=[('ada::scheme::type', 'FILE')],
                solver='cadical', timeout=1800, object_bits=11, bound='port text <= 6 bytes',
                note='url::set_port: host, credentials, scheme and validity untouched; a port is stored only on a URL that can have one (the contract the ada::url host setter relies on)'))
