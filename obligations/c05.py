from vlib.runner import Obl
OBLS = []
INC = ['spec/urlspec.h', 'spec/scan.h']
U8_32 = 'const unsigned char[32]'
OBLS.append(Obl('C05.sets.printable_idempotent', ['C05', 'C11'], 'P#', 'c05/lemmas.c', roots=['bit_at'], includes=INC, unwind=8,
                globals=[(n + '_PERCENT_ENCODE', U8_32) for n in ('C0_CONTROL', 'FRAGMENT', 'QUERY', 'SPECIAL_QUERY', 'PATH', 'USERINFO')], timeout=120,
                note='bytes left unencoded are printable ASCII; the escape alphabet is never re-encoded (all 256 bytes x 6 sets)'))
