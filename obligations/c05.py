from vlib.runner import Obl
OBLS = []
INC = ['spec/urlspec.h', 'spec/scan.h']
U8_32 = 'const unsigned char[32]'
OBLS.append(Obl('C05.sets.printable_idempotent', ['C05', 'C11'], 'P#', 'c05/lemmas.c', roots=['bit_at'], includes=INC, unwind=8,
                globals=[(n + '_PERCENT_ENCODE', U8_32) for n in ('C0_CONTROL', 'FRAGMENT', 'QUERY', 'SPECIAL_QUERY', 'PATH', 'USERINFO')], timeout=120,
                note='bytes left unencoded are printable ASCII; the escape alphabet is never re-encoded (all 256 bytes x 6 sets)'))

from obligations.c09 import ABSTRACT as _ABS, SPECS as _SP
_sp = dict(_SP); _sp['percent_encode'] = 'skel/percent_encode.trail.spec'; _sp['agg_update_base_pathname'] = 'skel/agg_update_base_pathname.opaque.spec'; _sp['parse_url_impl_agg_1'] = 'parse_url_impl_agg_1.opaque.spec'
OBLS.append(Obl('C05.parse_url_impl.opaque_path_no_trailing_space', ['C05', 'C19', 'C02'], 'Pinf', 'c05/parse_opaque_space.c', roots=['parse_url_impl_agg_1'],
                stub=_ABS, specs=_sp, bufn=8, defines=['STR_CAP=6', 'BUF_START=1'], includes=['spec/urlspec.h', 'spec/scan.h'],
                globals=[('omitted', 'const unsigned int')], enums=[('ada::state', x) for x in ('PORT', 'FRAGMENT', 'RELATIVE_SCHEME', 'RELATIVE_SLASH', 'SPECIAL_RELATIVE_OR_AUTHORITY', 'AUTHORITY', 'QUERY')] + [('ada::scheme::type', 'NOT_SPECIAL')],
                solver='cadical', timeout=3000, object_bits=12, unwind=12,
                note='parser state machine (loops cut, editors abstract): the path text written for an opaque-path URL never ends in a raw space (pre-condition of the abstract '
                     'update_base_pathname at every call site)'))
