from vlib.runner import Obl
OBLS = []
INC = ['spec/urlspec.h', 'spec/scan.h', 'spec/ref_pct.h', 'spec/agg_wf.h']
OM = [('omitted', 'const unsigned int')]


def editor(name, roots, cap=10, bufn=4, props=('C07', 'C19', 'C02'), tier='quick', timeout=1200, extra_globals=()):
    OBLS.append(Obl('C07.%s.view/c%d' % (name, cap), list(props), 'B(%d)' % cap, 'c07/%s.c' % name, roots=roots + ['agg_validate'],
                    bufn=bufn, unwind=cap + 2, defines=['STR_CAP=%d' % cap, 'BUF_START=1'], includes=INC, globals=OM + list(extra_globals),
                    solver='cadical', timeout=timeout, tier=tier, bound='href <= %d bytes, input <= %d bytes' % (cap, bufn),
                    note='WF preserved, validate() accepts, whole view updated as specified'))


editor('update_base_hostname', ['agg_update_base_hostname'])
