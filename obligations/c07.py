from vlib.runner import Obl
OBLS = []
INC = ['spec/urlspec.h', 'spec/scan.h', 'spec/ref_pct.h', 'spec/agg_wf.h']
OM = [('omitted', 'const unsigned int')]


def editor(name, roots, cap=10, bufn=4, props=('C07', 'C19', 'C03', 'C04', 'C02'), tier='quick', timeout=1200, extra_globals=()):
    OBLS.append(Obl('C07.%s.view/c%d' % (name, cap), list(props), 'B(%d)' % cap, 'c07/%s.c' % name, roots=roots + ['agg_validate'],
                    bufn=bufn, unwind=cap + 2, defines=['STR_CAP=%d' % cap, 'BUF_START=1'], includes=INC, globals=OM + list(extra_globals),
                    solver='cadical', timeout=timeout, tier=tier, bound='href <= %d bytes, input <= %d bytes' % (cap, bufn),
                    note='WF preserved, validate() accepts, whole view updated as specified'))


FRAG = [('FRAGMENT_PERCENT_ENCODE', 'const unsigned char[32]')]
for name in ['update_base_hostname', 'update_base_username', 'update_base_password', 'append_base_username', 'update_base_port', 'clear_port',
             'update_base_pathname', 'append_base_pathname', 'update_base_search', 'update_base_search_set', 'update_unencoded_base_hash',
             'clear_search', 'clear_hash', 'clear_pathname', 'clear_hostname', 'clear_password', 'add_authority_slashes_if_needed',
             'set_scheme', 'set_scheme_from_view_with_colon', 'set_protocol_as_file']:
    editor(name, ['agg_' + name], extra_globals=FRAG if name == 'update_unencoded_base_hash' else ())
    editor(name, ['agg_' + name], cap=14, bufn=5, tier='thorough', timeout=3600, extra_globals=FRAG if name == 'update_unencoded_base_hash' else ())

DFL = [('url_aggregator_default', '@default')]
for name in ['append_base_password', 'update_base_authority', 'copy_scheme']:
    editor(name, ['agg_' + name], extra_globals=DFL)
    editor(name, ['agg_' + name], cap=14, bufn=5, tier='thorough', timeout=3600, extra_globals=DFL)

GETTERS = ['agg_get_protocol', 'agg_get_username', 'agg_get_password', 'agg_get_host', 'agg_get_hostname', 'agg_get_port', 'agg_get_pathname',
           'agg_get_search', 'agg_get_hash', 'agg_get_href', 'agg_get_href_size', 'agg_has_search', 'agg_has_hash', 'agg_has_port', 'agg_has_password',
           'agg_has_hostname', 'agg_has_authority', 'agg_has_non_empty_username', 'agg_has_non_empty_password', 'agg_has_credentials',
           'agg_has_empty_hostname', 'agg_has_dash_dot', 'agg_validate', 'agg_get_pathname_length', 'agg_is_at_path']
for cap, tier in ((10, 'quick'), (16, 'thorough')):
    OBLS.append(Obl('C07.getters.slices/c%d' % cap, ['C07', 'C04', 'C02'], 'B(%d)' % cap, 'c07/getters.c', roots=GETTERS, unwind=cap + 9,
                    defines=['STR_CAP=%d' % cap], includes=INC, globals=OM, solver='cadical', timeout=3600, tier=tier, bound='href <= %d bytes' % cap,
                    note='getters == slices delimited by the offsets; predicates == view; re-assembly == href; validate() accepts WF'))
