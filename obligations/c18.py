"""C18: the same contracts discharged on the other build configurations (ISA kernels), and amalgamation identity."""
from vlib.runner import Obl
OBLS = []
INC = ['spec/urlspec.h', 'spec/scan.h']
for fn in ('find_next_host_delimiter', 'find_next_host_delimiter_special'):
    OBLS.append(Obl('C18.%s.first@ssse3/b64' % fn, ['C18', 'C01', 'C02'], 'B(64)', 'auto', roots=[fn], cfg='ssse3', specs={fn: fn + '.spec'}, enforce=fn,
                    loop_contracts=True, includes=INC, bufn=64, solver='kissat', timeout=900, bound='view length <= 64 bytes (loop contracts inductive; object size fixed)',
                    note='SSSE3 (pshufb nibble-table) kernel satisfies the same contract as the SSE2 kernel: least delimiter index >= location, else size'))
    if fn == 'find_next_host_delimiter':   # (the any-length variant of the _special kernel exceeds the memory limit: not registered)
      OBLS.append(Obl('C18.%s.first@ssse3' % fn, ['C18', 'C01', 'C02'], 'Pinf', 'auto', roots=[fn], cfg='ssse3', specs={fn: fn + '.spec'}, enforce=fn,
                      loop_contracts=True, includes=INC, solver='kissat', timeout=2400, tier='thorough',
                      note='SSSE3 kernel, any length'))
OBLS.append(Obl('C18.has_tabs_or_newline.complete@ssse3/b64', ['C18', 'C01', 'C02'], 'B(64)', 'auto', roots=['has_tabs_or_newline'], cfg='ssse3',
                specs={'has_tabs_or_newline': 'has_tabs_or_newline.spec'}, enforce='has_tabs_or_newline', loop_contracts=True, includes=INC, bufn=64,
                solver='kissat', timeout=900, bound='view length <= 64 bytes', note='SSSE3 kernel: false => no tab/LF/CR anywhere'))
OBLS.append(Obl('C18.try_parse_ipv4_fast.exact@avx512', ['C18', 'C10', 'C02'], 'P#', 'c10/ipv4_fast.c', roots=['try_parse_ipv4_fast'], cfg='avx512', bufn=18, unwind=20,
                includes=INC + ['spec/ref_host.h'], defines=['FASTFN=try_parse_ipv4_fast'], globals=[('ipv4_fast_fail', 'const unsigned long')], solver='kissat', timeout=1800,
                note='AVX-512 masked-load kernel + trusted converter satisfy the same contract as the scalar path (canonical dotted decimal, Standard\'s value); lengths 0..18'))

INC6 = ['spec/urlspec.h', 'spec/scan.h', 'spec/ref_host.h']
# (the domain-complete variant -- every admitted length, 46 bytes -- runs out of memory at 14 GB in propositional reduction)
for bn, tier, grade in ((16, 'quick', 'B(16)'),):
    OBLS.append(Obl('C18.ipv6_structure_plausible.sound@avx512' + ('/b%d' % bn if bn != 46 else ''), ['C18', 'C10', 'C02'], grade, 'c10/ipv6_prefilter.c',
                    roots=['ipv6_structure_plausible'], cfg='avx512', bufn=bn, unwind=bn + 2, includes=INC6, solver='kissat', timeout=6000, tier=tier,
                    bound=('host text <= %d bytes' % bn) if bn != 46 else None,
                    note='AVX-512 IPv6 prefilter never rejects what the Standard\'s IPv6 parser accepts' + ('' if bn != 46 else ' (every length the function admits: it rejects > 45 itself)')))
