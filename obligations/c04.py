from vlib.runner import Obl
OBLS = []
INC = ['spec/urlspec.h', 'spec/scan.h', 'spec/ref_host.h', 'spec/ref_pct.h', 'model/host_ghost.h']
U64 = 'const unsigned long'
for which, roots, stub in (('url', ['url_parse_ipv4'], []), ('url_aggregator', ['agg_parse_ipv4'], ['agg_update_base_hostname'])):
    OBLS.append(Obl('C04.parse_ipv4.twin.%s/b9' % which, ['C04', 'C10', 'C02'], 'B(9)', 'c04/ipv4_twin.c', roots=roots,
                    stub=stub, specs={'agg_update_base_hostname': 'skel/agg_update_base_hostname.record.spec'},
                    bufn=9, unwind=17, defines=['STR_CAP=16', 'BUF_START=1', 'ONLY_URL=1' if which == 'url' else 'ONLY_AGG=1'], includes=INC,
                    globals=[('omitted', 'const unsigned int'), ('ipv4_fast_fail', U64), ('url_default', '@default'), ('url_aggregator_default', '@default')],
                    solver='cadical', timeout=3000, object_bits=10, tier='thorough', bound='host text <= 9 bytes',
                    note='%s::parse_ipv4 == the Standard\'s IPv4 parser + serializer (the contract shared by both URL types)' % which))

# IPv6 twins: bounded equality with the Standard's parser, and parse o serialize = id over all 2^128 addresses
for which, roots, stub in (('url', ['url_parse_ipv6'], []), ('url_aggregator', ['agg_parse_ipv6'], ['agg_update_base_hostname'])):
    only = 'ONLY_URL=1' if which == 'url' else 'ONLY_AGG=1'
    OBLS.append(Obl('C04.parse_ipv6.twin.%s/b10' % which, ['C04', 'C10', 'C02'], 'B(10)', 'c10/ipv6_twin.c', roots=roots,
                    stub=stub, specs={'agg_update_base_hostname': 'skel/agg_update_base_hostname.recordk.spec'},
                    bufn=10, unwind=12, unwindset=['str_ctor__z_c.0:43', 'str_resize__z_c.0:43'], defines=['STR_CAP=42', 'BUF_START=1', only], includes=INC,
                    globals=[('omitted', 'const unsigned int'), ('url_default', '@default'), ('url_aggregator_default', '@default')],
                    solver='kissat', timeout=3000, object_bits=10, tier='thorough', bound='host text <= 10 bytes',
                    note='%s::parse_ipv6 == the Standard\'s IPv6 parser + serializer (the contract shared by both URL types)' % which))
    # (C10.parse_ipv6.serialized_identity.* -- parse o serialize = id over all 2^128 addresses through the real parser -- did not finish within
    #  25 minutes / ran out of memory with the full harness and is not registered; IPV6_FROM_ADDRESS in harness/c10/ipv6_twin.c keeps the set-up)

# (the fully unwound safety obligation C02.parse_ipv6.safe.* -- 40 min, and a timeout on changed code -- was replaced by the cut-loop one below)
for which, root, stub in (('url', 'url_parse_ipv6', ['serializers_ipv6']), ('url_aggregator', 'agg_parse_ipv6', ['agg_update_base_hostname', 'serializers_ipv6'])):
    only = 'ONLY_URL=1' if which == 'url' else 'ONLY_AGG=1'
    OBLS.append(Obl('C02.parse_ipv6.safe_any_length.%s' % which, ['C02', 'C10', 'C04'], 'Pinf', 'c10/ipv6_safe_any.c', roots=[root],
                    stub=stub, specs={'agg_update_base_hostname': 'skel/agg_update_base_hostname.recordk.spec', root: 'parse_ipv6.cut.spec'},
                    bufn=64, unwind=44, defines=['STR_CAP=42', only], includes=INC,
                    globals=[('omitted', 'const unsigned int'), ('url_default', '@default'), ('url_aggregator_default', '@default')],
                    solver='cadical', timeout=1800, object_bits=10,
                    note='%s::parse_ipv6: all safety checks; piece loop and IPv4-in-IPv6 loop cut by their invariants, so the argument does not depend on the input length '
                         '(view of 0..64 bytes; the function itself refuses every length > 45); the serializer is abstract here (C10.serializers.ipv6.exact)' % which))

OBLS.append(Obl('C04.url.get_components.aggregator_layout/c12', ['C04', 'C07', 'C02'], 'B(12)', 'c04/url_components.c', roots=['url_get_components', 'url_get_href', 'url_get_href_size'],
                unwind=14, defines=['STR_CAP=12', 'MEMCPY_BYTEWISE=1'], includes=['spec/urlspec.h', 'spec/scan.h', 'spec/agg_wf.h'], globals=[('omitted', 'const unsigned int')],
                enums=[('ada::scheme::type', 'NOT_SPECIAL')], solver='cadical', timeout=3000, object_bits=10, bound='href <= 12 bytes',
                note='ada::url: get_components() + get_href() form the aggregator\'s representation of the same URL (unique WF decomposition), get_href_size() = length'))
