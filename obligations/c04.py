from vlib.runner import Obl
OBLS = []
INC = ['spec/urlspec.h', 'spec/scan.h', 'spec/ref_host.h', 'spec/ref_pct.h', 'model/host_ghost.h']
U64 = 'const unsigned long'
for which, roots, stub in (('url', ['url_parse_ipv4'], []), ('url_aggregator', ['agg_parse_ipv4'], ['agg_update_base_hostname'])):
    OBLS.append(Obl('C04.parse_ipv4.twin.%s/b9' % which, ['C04', 'C10', 'C02'], 'B(9)', 'c04/ipv4_twin.c', roots=roots,
                    stub=stub, specs={'agg_update_base_hostname': 'skel/agg_update_base_hostname.record.spec'},
                    bufn=9, unwind=17, defines=['STR_CAP=16', 'BUF_START=1', 'ONLY_URL=1' if which == 'url' else 'ONLY_AGG=1'], includes=INC,
                    globals=[('omitted', 'const unsigned int'), ('ipv4_fast_fail', U64), ('url_default', '@default'), ('url_aggregator_default', '@default')],
                    solver='cadical', timeout=3000, object_bits=10, tier='thorough', bound='host text <= 9 bytes',
                    note='%s::parse_ipv4 == the Standard\'s IPv4 parser + serializer (the contract shared by both URL types)' % which))
