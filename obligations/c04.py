from vlib.runner import Obl
OBLS = []
INC = ['spec/urlspec.h', 'spec/scan.h', 'spec/ref_host.h', 'spec/ref_pct.h', 'model/host_ghost.h']
U64 = 'const unsigned long'
OBLS.append(Obl('C04.parse_ipv4.twin/b11', ['C04', 'C10', 'C02'], 'B(11)', 'c04/ipv4_twin.c', roots=['url_parse_ipv4', 'agg_parse_ipv4'],
                stub=['agg_update_base_hostname'], specs={'agg_update_base_hostname': 'skel/agg_update_base_hostname.record.spec'},
                bufn=11, unwind=17, defines=['STR_CAP=16', 'BUF_START=1'], includes=INC,
                globals=[('omitted', 'const unsigned int'), ('ipv4_fast_fail', U64), ('url_default', '@default'), ('url_aggregator_default', '@default')],
                solver='cadical', timeout=2400, object_bits=10, bound='host text <= 11 bytes',
                note='both IPv4 parsers == the Standard\'s IPv4 parser + serializer (shared contract), so the two URL types agree'))
