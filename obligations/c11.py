from vlib.runner import Obl

SETS = [('C0_CONTROL', 'SPEC_IN_C0'), ('FRAGMENT', 'SPEC_IN_FRAGMENT'), ('QUERY', 'SPEC_IN_QUERY'),
        ('SPECIAL_QUERY', 'SPEC_IN_SPECIAL_QUERY'), ('PATH', 'SPEC_IN_PATH'), ('USERINFO', 'SPEC_IN_USERINFO'),
        ('WWW_FORM_URLENCODED', 'SPEC_FORM_ESCAPED')]
U8_32 = 'const unsigned char[32]'

OBLS = []
for name, spec in SETS:
    OBLS.append(Obl('C11.set.%s.membership' % name, ['C11', 'C05'], 'P#', 'c11/set_membership.c', roots=['bit_at'],
                    defines=['SETNAME=G_%s_PERCENT_ENCODE' % name, 'SPECSET=%s' % spec],
                    globals=[('%s_PERCENT_ENCODE' % name, U8_32)], includes=['spec/urlspec.h'], timeout=120,
                    note='bit_at(SET,c) <=> c in the Standard\'s set, all 256 byte values'))
OBLS.append(Obl('C11.hex.table', ['C11', 'C05'], 'P#', 'c11/hex_table.c', globals=[('hex', 'const char[1024]')],
                includes=['spec/urlspec.h'], timeout=120, note='hex[4c..4c+3] = % HI LO NUL upper-case, all 256 values'))

INC = ['spec/urlspec.h', 'spec/scan.h', 'spec/ref_pct.h']
for fn in ('percent_encode', 'percent_encode_idx', 'percent_encode_append', 'percent_encode_overwrite'):
    OBLS.append(Obl('C11.%s.exact/b4' % fn, ['C11', 'C05', 'C02'], 'B(4)', 'c11/encode_%s.c' % fn,
                    roots=[fn] + (['percent_encode_index'] if fn == 'percent_encode_idx' else []),
                    bufn=4, unwind=16, defines=['STR_CAP=14', 'BUF_START=1'], includes=INC, solver='cadical', timeout=900,
                    bound='input <= 4 bytes, arbitrary 256-bit set, output capacity 14',
                    note='encoder entry point == reference "percent-encode after encoding" for an arbitrary set'))
OBLS.append(Obl('C11.percent_decode.exact/b6', ['C11', 'C12', 'C02'], 'B(6)', 'c11/decode_exact.c', roots=['percent_decode', 'form_urlencoded_decode'],
                bufn=6, unwind=8, defines=['STR_CAP=7', 'BUF_START=1'], includes=INC, globals=[], solver='cadical', timeout=900, bound='input <= 6 bytes',
                note='percent_decode and form_urlencoded_decode == the Standard\'s percent-decode (malformed escapes literal, + -> space)'))
OBLS.append(Obl('C11.decode_encode.roundtrip/b4', ['C11', 'C12', 'C02'], 'B(4)', 'c11/roundtrip.c', roots=['percent_encode', 'percent_decode', 'form_urlencoded_decode'], tier='thorough',
                bufn=4, unwind=14, defines=['STR_CAP=12', 'BUF_START=1'], includes=INC, globals=[('WWW_FORM_URLENCODED_PERCENT_ENCODE', U8_32)], solver='kissat', timeout=900,
                bound='input <= 4 bytes, arbitrary set containing %', note='decode(encode_S(x)) == x whenever % is in S; form codec round trip with space/+'))
both_args = dict(roots=['percent_encode_index'], specs={'percent_encode_index': 'percent_encode_index.spec'}, enforce='percent_encode_index',
                 loop_contracts=True, includes=INC)
OBLS.append(Obl('C11.percent_encode_index.first', ['C11', 'C02'], 'Pinf', 'auto', solver='kissat', timeout=900,
                note='first index whose byte is in the (arbitrary) set, else size; 8-byte unrolled loop + tail; any length', **both_args))
