from vlib.runner import Obl

SETS = [('C0_CONTROL', 'SPEC_IN_C0'), ('FRAGMENT', 'SPEC_IN_FRAGMENT'), ('QUERY', 'SPEC_IN_QUERY'),
        ('SPECIAL_QUERY', 'SPEC_IN_SPECIAL_QUERY'), ('PATH', 'SPEC_IN_PATH'), ('USERINFO', 'SPEC_IN_USERINFO'),
        ('WWW_FORM_URLENCODED', 'SPEC_FORM_ESCAPED')]
U8_32 = 'const unsigned char[32]'

OBLS = []
for name, spec in SETS:
    OBLS.append(Obl('C11.set.%s.membership' % name, ['C11', 'C05'], 'P#', 'c11/set_membership.c', roots=['bit_at'],
                    defines=['SETNAME=G_%s_PERCENT_ENCODE' % name, 'SPECSET=%s' % spec],
                    globals=[('%s_PERCENT_ENCODE' % name, U8_32)], includes=['spec/urlspec.h'], timeout=120,
                    note='bit_at(SET,c) <=> c in the Standard\'s set, all 256 byte values'))
OBLS.append(Obl('C11.hex.table', ['C11', 'C05'], 'P#', 'c11/hex_table.c', globals=[('hex', 'const char[1024]')],
                includes=['spec/urlspec.h'], timeout=120, note='hex[4c..4c+3] = % HI LO NUL upper-case, all 256 values'))
