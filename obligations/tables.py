"""loop-free, domain-complete table / byte-class obligations shared by several properties"""
from vlib.runner import Obl
INC = ['spec/urlspec.h', 'spec/scan.h']
A256 = 'const std::array<unsigned char, 256>'
OBLS = [
    Obl('C01.k_host_class.sound', ['C01', 'C05', 'C11'], 'P#', 'tab/k_host_class.c', globals=[('k_host_class', A256)], includes=INC, timeout=120,
        note='fast-path host byte classes sound w.r.t. forbidden domain code points, all 256 values'),
    Obl('C01.k_rest.sound', ['C01', 'C05', 'C11'], 'P#', 'tab/k_rest.c', globals=[('k_rest', A256)], includes=INC, timeout=120,
        note='fast-path path/query/fragment byte classes never accept a byte the Standard would percent-encode, all 256 values'),
    Obl('C01.path_signature_table.exact', ['C01', 'C11'], 'P#', 'tab/path_signature_table.c', globals=[('path_signature_table', A256)], includes=INC, timeout=120,
        note='path_signature_table bit0 <=> path percent-encode set, bits 1-3 <=> \\ . %'),
    Obl('C01.byte_classes.exact', ['C01', 'C10', 'C11', 'C02'], 'P#', 'tab/byte_classes.c',
        roots=['is_forbidden_host_code_point', 'is_forbidden_domain_code_point', 'is_alnum_plus', 'is_ascii_hex_digit', 'is_ascii_digit',
               'is_digit', 'is_alpha', 'is_c0_control_or_space', 'is_ascii_tab_or_newline', 'is_tabs_or_newline', 'is_lowercase_hex', 'to_lower',
               'convert_hex_to_binary'],
        globals=[('is_forbidden_domain_code_point_table_or_upper', A256), ('unhex_table', A256), ('hex_nibble', A256),
                 ('authority_delimiter', A256), ('authority_delimiter_special', A256)], includes=INC, timeout=120,
        note='13 byte classifiers and 5 lookup tables equal the Standard\'s definitions on all 256 byte values'),
]
