from vlib.runner import Obl
OBLS = []
INC = ['spec/urlspec.h', 'spec/scan.h']
ABSTRACT = ['agg_parse_scheme_with_colon_0', 'try_parse_simple_absolute_agg', 'has_tabs_or_newline', 'agg_copy_scheme', 'agg_update_base_pathname', 'agg_update_base_search',
            'agg_update_base_search_set', 'agg_update_unencoded_base_hash', 'agg_append_base_password', 'agg_append_base_username', 'percent_encode',
            'agg_update_base_authority', 'agg_update_host_to_base_host', 'agg_update_base_port', 'agg_clear_search', 'agg_clear_pathname', 'shorten_path_sv',
            'get_host_delimiter_location', 'agg_parse_host', 'agg_update_base_hostname', 'agg_parse_port', 'agg_consume_prepared_path', 'agg_append_base_pathname',
            'agg_set_protocol_as_file', 'find_authority_delimiter', 'find_authority_delimiter_special']
SPECS = {c: 'skel/%s.spec' % c for c in ABSTRACT}
SPECS['find_authority_delimiter'] = 'find_authority_delimiter.spec'
SPECS['find_authority_delimiter_special'] = 'find_authority_delimiter_special.spec'
SPECS['parse_url_impl_agg_1'] = 'parse_url_impl_agg_1.cut.spec'
OBLS.append(Obl('C09.parse_url_impl<url_aggregator,true>.exit_size', ['C09', 'C02'], 'Pinf', 'c09/parse_exit_size.c', roots=['parse_url_impl_agg_1'],
                stub=ABSTRACT, specs=SPECS, bufn=8, defines=['STR_CAP=6', 'BUF_START=1'], includes=INC, globals=[('omitted', 'const unsigned int')], enums=[('ada::state', x) for x in ('PORT', 'FRAGMENT', 'RELATIVE_SCHEME', 'RELATIVE_SLASH', 'SPECIAL_RELATIVE_OR_AUTHORITY', 'AUTHORITY')],
                solver='cadical', timeout=3000, object_bits=12, unwind=12,
                note='every exit of the parser state machine (loops cut: one arbitrary iteration from an arbitrary state): valid => href length <= limit; oversized input refused; '
                     'editors and sub-parsers abstract (arbitrary effect), so the argument does not depend on input length'))
