from vlib.runner import Obl
OBLS = []
INC = ['spec/urlspec.h', 'spec/scan.h', 'model/port_ghost.h']
OBLS.append(Obl('C19.parse_port.value/b8', ['C19', 'C03', 'C05', 'C04', 'C02'], 'B(8)', 'c19/parse_port.c', roots=['agg_parse_port'],
                stub=['agg_update_base_port', 'agg_clear_port'],
                specs={'agg_update_base_port': 'skel/agg_update_base_port.record.spec', 'agg_clear_port': 'skel/agg_clear_port.record.spec'},
                bufn=8, unwind=10, defines=['STR_CAP=6', 'BUF_START=1'], includes=INC, globals=[('omitted', 'const unsigned int')],
                enums=[('ada::scheme::type', x) for x in ('HTTP', 'NOT_SPECIAL', 'HTTPS', 'WS', 'FTP', 'WSS', 'FILE')], solver='cadical', timeout=900,
                bound='port text <= 8 bytes', note='port state: digit run, <= 65535, default port never stored, trailing-content rule, consumed count'))
