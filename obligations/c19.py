from vlib.runner import Obl
OBLS = []
INC = ['spec/urlspec.h', 'spec/scan.h', 'model/port_ghost.h']
OBLS.append(Obl('C19.parse_port.value/b8', ['C19', 'C03', 'C05', 'C04', 'C02'], 'B(8)', 'c19/parse_port.c', roots=['agg_parse_port'],
                stub=['agg_update_base_port', 'agg_clear_port'],
                specs={'agg_update_base_port': 'skel/agg_update_base_port.record.spec', 'agg_clear_port': 'skel/agg_clear_port.record.spec'},
                bufn=8, unwind=10, defines=['STR_CAP=6', 'BUF_START=1'], includes=INC, globals=[('omitted', 'const unsigned int')],
                enums=[('ada::scheme::type', x) for x in ('HTTP', 'NOT_SPECIAL', 'HTTPS', 'WS', 'FTP', 'WSS', 'FILE')], solver='cadical', timeout=900,
                bound='port text <= 8 bytes', note='port state: digit run, <= 65535, default port never stored, trailing-content rule, consumed count'))

# ---- the protocol setter's state machine (scheme state with a state override) against the record invariants
ENUM_T = [('ada::scheme::type', x) for x in ('HTTP', 'NOT_SPECIAL', 'HTTPS', 'WS', 'FTP', 'WSS', 'FILE')]
INC2 = ['spec/urlspec.h', 'spec/scan.h', 'spec/record.late.h']
_cal = {'agg_set_scheme': 'skel/agg_set_scheme.record.spec', 'agg_set_scheme_from_view_with_colon': 'skel/agg_set_scheme_from_view_with_colon.record.spec',
        'agg_clear_port': 'skel/agg_clear_port.record2.spec'}
OBLS.append(Obl('C19.url_aggregator.parse_scheme_with_colon<true>.record', ['C19', 'C03', 'C05', 'C04', 'C02'], 'B(7)', 'auto', roots=['agg_parse_scheme_with_colon_1', 'agg_has_credentials'],
                enforce='agg_parse_scheme_with_colon_1', replace=list(_cal), specs=dict(_cal, agg_parse_scheme_with_colon_1='skel/agg_parse_scheme_with_colon_1.record.spec'),
                bufn=7, unwind=10, defines=['STR_CAP=7', 'BUF_START=1'], includes=INC2, globals=[('omitted', 'const unsigned int')], enums=ENUM_T, solver='cadical', timeout=1200,
                object_bits=11, bound='scheme text <= 7 bytes incl. colon (covers every special scheme in any letter case)',
                note='protocol setter: success => scheme type is that of the lower-cased text, special-ness kept, never file with credentials/port, never away from file with an '
                     'empty host, the new scheme\'s default port is dropped, credentials kept; failure => object untouched (editors by contract)'))
OBLS.append(Obl('C19.url.parse_scheme<true>.record', ['C19', 'C03', 'C05', 'C04', 'C02'], 'B(7)', 'auto', roots=['url_parse_scheme_1'],
                enforce='url_parse_scheme_1', specs={'url_parse_scheme_1': 'url_parse_scheme_1.record.spec'},
                bufn=7, unwind=10, defines=['STR_CAP=7', 'BUF_START=1'], includes=INC2, enums=ENUM_T, solver='cadical', timeout=1200,
                object_bits=11, bound='scheme text <= 7 bytes (covers every special scheme in any letter case)',
                note='ada::url protocol setter against the same record-level clauses as the aggregator twin; a non-special scheme is stored lower-cased'))
