"""C17: every C wrapper of src/ada_c.cpp (url part) against its C++ method, the method being abstract."""
from vlib.runner import Obl
OBLS = []
INC = ['model/c17_ghost.h']
GETTERS = ['href', 'username', 'password', 'port', 'hash', 'host', 'hostname', 'pathname', 'search', 'protocol']
SETTERS_BOOL = ['href', 'host', 'hostname', 'protocol', 'username', 'password', 'port', 'pathname']
SETTERS_VOID = ['search', 'hash']
CLEARS = ['port', 'hash', 'search']
HAS = ['credentials', 'empty_hostname', 'hostname', 'non_empty_username', 'non_empty_password', 'port', 'password', 'hash', 'search']

PRO = '''  result_url_aggregator_t r; r.has = nondet_bool(); r.v.base.is_valid = 1; r.v.base.has_opaque_path = nondet_bool();
  __CPROVER_assume(AGG_SHAPE(&r.v));
  result_url_aggregator_t old = r;
  g_called = 0;
'''
INVALID = '''    __CPROVER_assert(g_called == 0, "postcondition: no C++ operation is invoked on a handle that holds a failed parse");
    __CPROVER_assert(agg_eqv(r.v, old.v) && r.has == old.has, "postcondition: the handle is left untouched");
'''


FOREIGN_PARSE = {'function': ['__CPROVER_assigns(g_called)', '__CPROVER_ensures(g_called == 1000)', '__CPROVER_ensures(AGG_SHAPE(&__CPROVER_return_value.v))']}


def method_spec(mid, kind, const):
    lines = ['__CPROVER_requires(AGG_SHAPE(self))']
    targets = ['g_called', 'g_arg', 'g_ret_sv', 'g_ret_bool'] + ([] if const else ['__CPROVER_object_whole(self)'])
    lines.append('__CPROVER_assigns(%s)' % ', '.join(targets))
    lines.append('__CPROVER_ensures(g_called == %d)' % mid)
    if not const:
        lines.append('__CPROVER_ensures(AGG_SHAPE(self))')
    if kind in ('set_bool', 'set_void'):
        lines.append('__CPROVER_ensures(g_arg.p == input.p && g_arg.n == input.n)')
    if kind == 'get':
        lines.append('__CPROVER_ensures(__CPROVER_return_value.p == g_ret_sv.p && __CPROVER_return_value.n == g_ret_sv.n)')
    if kind in ('set_bool', 'has'):
        lines.append('__CPROVER_ensures(__CPROVER_return_value == g_ret_bool)')
    return {'function': lines}


def add(wrapper, method, kind, mid):
    const = kind in ('get', 'has')
    if kind == 'get':
        call = '  ada_string x = %s(&r);\n' % wrapper
        bad = '    __CPROVER_assert(x.data == (const char *)0 && x.length == 0, "postcondition: empty string for an invalid handle");\n'
        good = '    __CPROVER_assert(x.data == g_ret_sv.p && x.length == g_ret_sv.n, "postcondition: data/length are exactly what the C++ getter returned");\n'
    elif kind == 'has':
        call = '  _Bool x = %s(&r);\n' % wrapper
        bad = '    __CPROVER_assert(!x, "postcondition: false for an invalid handle");\n'
        good = '    __CPROVER_assert(x == g_ret_bool, "postcondition: returns exactly what the C++ predicate returned");\n'
    elif kind == 'set_bool':
        call = '  const char *input = g_buf; NONDET(size_t, length);\n  _Bool x = %s(&r, input, length);\n' % wrapper
        bad = '    __CPROVER_assert(!x, "postcondition: false for an invalid handle");\n'
        good = ('    __CPROVER_assert(x == g_ret_bool, "postcondition: returns exactly what the C++ setter returned");\n'
                '    __CPROVER_assert(g_arg.p == input && g_arg.n == length, "postcondition: (data,length) passed through unchanged");\n')
    elif kind == 'set_void':
        call = '  const char *input = g_buf; NONDET(size_t, length);\n  %s(&r, input, length);\n' % wrapper
        bad = ''
        good = '    __CPROVER_assert(g_arg.p == input && g_arg.n == length, "postcondition: (data,length) passed through unchanged");\n'
    else:  # clear
        call = '  %s(&r);\n' % wrapper
        bad = ''; good = ''
    h = ('/* C17.%s: guard + faithful pass-through to %s (abstract) */\nvoid harness(void) {\n' % (wrapper, method) + PRO + call +
         '  if (!old.has) {\n' + INVALID + bad + '  } else {\n' +
         '    __CPROVER_assert(g_called == %d, "postcondition: exactly the corresponding C++ operation was invoked");\n' % mid + good +
         '  }\n  CANARY_POINT;\n}\n')
    # the C++ method is abstract (contract stub: works whether or not the wrapper still calls it).  A wrapper that re-parses instead
    # of calling its method is a violation, not an extraction break: ada::parse is abstract too and records an id no wrapper expects
    OBLS.append(Obl('C17.%s.faithful' % wrapper, ['C17', 'C02'], 'P#', h, roots=[wrapper], stub=[method, 'parse_agg'],
                    specs={method: method_spec(mid, kind, const), 'parse_agg': FOREIGN_PARSE},
                    bufn=8, defines=['STR_CAP=4', 'BUF_START=1'], includes=INC, globals=[('omitted', 'const unsigned int')], unwind=6, timeout=300,
                    note='invalid handle => null/empty/false, nothing called, handle untouched; valid handle => exactly %s is called with the arguments passed through and its result returned unchanged' % method))


mid = 1
for g in GETTERS:
    add('ada_get_' + g, 'agg_get_' + g, 'get', mid); mid += 1
for s in SETTERS_BOOL:
    add('ada_set_' + s, 'agg_set_' + s, 'set_bool', mid); mid += 1
for s in SETTERS_VOID:
    add('ada_set_' + s, 'agg_set_' + s, 'set_void', mid); mid += 1
for c in CLEARS:
    add('ada_clear_' + c, 'agg_clear_' + c, 'clear', mid); mid += 1
for h in HAS:
    add('ada_has_' + h, 'agg_has_' + h, 'has', mid); mid += 1

DIRECT = '''/* C17 direct field wrappers */
void harness(void) {
''' + PRO + '''  uint8_t ht = ada_get_host_type(&r), st = ada_get_scheme_type(&r);
  _Bool iv = ada_is_valid(&r);
  const ada_url_components *c = ada_get_components(&r);
  __CPROVER_assert(iv == old.has, "postcondition: ada_is_valid <=> the parse succeeded");
  __CPROVER_assert(ht == (old.has ? (uint8_t)old.v.base.host_type : 0), "postcondition: host type of the URL, 0 for an invalid handle");
  __CPROVER_assert(st == (old.has ? (uint8_t)old.v.base.type : 0), "postcondition: scheme type of the URL, 0 for an invalid handle");
  __CPROVER_assert(old.has ? (const void *)c == (const void *)&r.v.components : c == (const ada_url_components *)0, "postcondition: components are the object's own offsets (null for an invalid handle)");
  __CPROVER_assert(sizeof(ada_url_components) == sizeof(struct url_components), "postcondition: the C and C++ component records have the same layout size");
  __CPROVER_assert(agg_eqv(r.v, old.v) && r.has == old.has, "postcondition: read-only");
  CANARY_POINT;
}
'''
OBLS.append(Obl('C17.direct_fields.faithful', ['C17', 'C02'], 'P#', DIRECT, roots=['ada_get_host_type', 'ada_get_scheme_type', 'ada_is_valid', 'ada_get_components'],
                defines=['STR_CAP=4'], includes=INC, globals=[('omitted', 'const unsigned int')], unwind=6, timeout=300,
                note='ada_is_valid / ada_get_host_type / ada_get_scheme_type / ada_get_components return the object\'s own fields'))

LIFE = '''/* C17.lifecycle: copy / free / owned strings: every allocation is released exactly once by its free function, a copy is an
 * independent value, an owned string has exactly the bytes and length of the C++ string */
void harness(void) {
''' + PRO + '''  void *c = ada_copy(&r);
  result_url_aggregator_t *cp = (result_url_aggregator_t *)c;
  __CPROVER_assert(cp != &r && cp->has == r.has && agg_eqv(cp->v, r.v), "postcondition: ada_copy yields an equal, distinct object");
  cp->v.components.port = 7; cp->v.buffer.n = 0;
  __CPROVER_assert(agg_eqv(r.v, old.v), "postcondition: mutating the copy does not change the original");
  ada_owned_string o = ada_get_origin(&r);
  if (!old.has) __CPROVER_assert(o.data == (const char *)0 && o.length == 0, "postcondition: null owned string for an invalid handle");
  else {
    __CPROVER_assert(o.length == g_origin.n, "postcondition: owned string length == size of the C++ string");
    __CPROVER_assert(g_k >= o.length || o.data[g_k] == g_origin.d[g_k], "postcondition: owned string bytes == bytes of the C++ string");
  }
  ada_free_owned_string(o);
  ada_free(c);
  CANARY_POINT;
}
'''
ORIGIN_SPEC = {'function': ['__CPROVER_requires(AGG_SHAPE(self))', '__CPROVER_assigns(g_origin)',
                            '__CPROVER_ensures(__CPROVER_return_value.n <= STR_CAP && __CPROVER_return_value.n == g_origin.n)',
                            '__CPROVER_ensures(g_k >= g_origin.n || __CPROVER_return_value.d[g_k] == g_origin.d[g_k])']}
OBLS.append(Obl('C17.lifecycle.copy_free_owned', ['C17', 'C02'], 'P#', LIFE, roots=['ada_copy', 'ada_free', 'ada_get_origin', 'ada_free_owned_string'],
                replace=['agg_get_origin'], specs={'agg_get_origin': ORIGIN_SPEC}, defines=['STR_CAP=4'], includes=INC + ['model/c17_origin.h'],
                globals=[('omitted', 'const unsigned int')], unwind=8, timeout=300, extra_flags=['--memory-leak-check'],
                note='copy is equal and independent; owned string = bytes of the C++ string; every allocation freed exactly once (memory-leak check on)'))

# ---- parse / can_parse entry points: the wrappers hand exactly their arguments to ada::parse / ada::can_parse (abstract, recording)
CP_SPEC = {'function': ['__CPROVER_assigns(g_called, g_arg, g_arg2, g_has_base, g_ret_bool)',
                        '__CPROVER_ensures(g_called == __CPROVER_old(g_called) + 1)',
                        '__CPROVER_ensures(g_arg.p == input.p && g_arg.n == input.n)',
                        '__CPROVER_ensures(g_has_base == (base_input != (const sv_t *)0))',
                        '__CPROVER_ensures(base_input == (const sv_t *)0 || (g_arg2.p == base_input->p && g_arg2.n == base_input->n))',
                        '__CPROVER_ensures(__CPROVER_return_value == g_ret_bool)']}
CANP = '''/* C17.ada_can_parse / ada_can_parse_with_base: exactly one call of ada::can_parse with the views passed through, result returned */
void harness(void) {
  const char *input = g_buf; NONDET(size_t, length); const char *base = g_buf2; NONDET(size_t, base_length);
  g_called = 0;
  _Bool x = ada_can_parse(input, length);
  __CPROVER_assert(g_called == 1 && x == g_ret_bool, "postcondition: ada_can_parse returns what the single call of ada::can_parse returned");
  __CPROVER_assert(g_arg.p == input && g_arg.n == length && !g_has_base, "postcondition: (data,length) passed through, no base");
  g_called = 0;
  _Bool y = ada_can_parse_with_base(input, length, base, base_length);
  __CPROVER_assert(g_called == 1 && y == g_ret_bool, "postcondition: ada_can_parse_with_base returns what the single call of ada::can_parse(input, &base) returned");
  __CPROVER_assert(g_arg.p == input && g_arg.n == length && g_has_base && g_arg2.p == base && g_arg2.n == base_length, "postcondition: input and base views passed through");
  CANARY_POINT;
}
'''
OBLS.append(Obl('C17.ada_can_parse.faithful', ['C17', 'C08', 'C02'], 'P#', CANP, roots=['ada_can_parse', 'ada_can_parse_with_base'], stub=['can_parse'], specs={'can_parse': CP_SPEC},
                bufn=8, defines=['STR_CAP=4', 'BUF_START=1'], includes=INC + ['model/c17_parse_ghost.h'], unwind=6, timeout=300,
                note='ada_can_parse / ada_can_parse_with_base == ada::can_parse on the same views (always with the base when one is given)'))

P_SPEC = {'function': ['__CPROVER_assigns(g_called, g_arg, g_arg2, g_has_base, g_base_seen, g_res1, g_res2)',
                       '__CPROVER_ensures(g_called == __CPROVER_old(g_called) + 1)',
                       '__CPROVER_ensures(g_called != 1 || (g_arg.p == input.p && g_arg.n == input.n && g_has_base == (base_url != (const struct url_aggregator *)0) && agg_eqv(__CPROVER_return_value.v, g_res1.v) && __CPROVER_return_value.has == g_res1.has))',
                       '__CPROVER_ensures(g_called != 2 || (g_arg2.p == input.p && g_arg2.n == input.n && base_url != (const struct url_aggregator *)0 && agg_eqv(*base_url, g_base_seen) && agg_eqv(__CPROVER_return_value.v, g_res2.v) && __CPROVER_return_value.has == g_res2.has))',
                       '__CPROVER_ensures(g_called != 2 || (g_arg.p == __CPROVER_old(g_arg.p) && g_arg.n == __CPROVER_old(g_arg.n) && g_res1.has == __CPROVER_old(g_res1.has) && agg_eqv(g_res1.v, __CPROVER_old(g_res1.v))))',
                       '__CPROVER_ensures(AGG_SHAPE(&__CPROVER_return_value.v))']}
PARSE = '''/* C17.ada_parse / ada_parse_with_base: the handle holds exactly the result of ada::parse (with base: of parsing the input against
 * the parsed base; a base that fails to parse yields a failed handle and the input is never parsed) */
void harness(void) {
  const char *input = g_buf; NONDET(size_t, length); const char *base = g_buf2; NONDET(size_t, base_length);
  g_called = 0;
  result_url_aggregator_t *h = (result_url_aggregator_t *)ada_parse(input, length);
  __CPROVER_assert(g_called == 1 && g_arg.p == input && g_arg.n == length && !g_has_base, "postcondition: ada_parse = one call of ada::parse(input) without base");
  __CPROVER_assert(h->has == g_res1.has && agg_eqv(h->v, g_res1.v), "postcondition: the handle holds exactly the parse result");
  ada_free(h);
  g_called = 0;
  result_url_aggregator_t *w = (result_url_aggregator_t *)ada_parse_with_base(input, length, base, base_length);
  __CPROVER_assert(g_arg.p == base && g_arg.n == base_length, "postcondition: the base string is parsed first (without base)");
  if (!g_res1.has) {
    __CPROVER_assert(g_called == 1 && !w->has, "postcondition: a base that fails to parse gives a failed handle; the input is not parsed");
  } else {
    __CPROVER_assert(g_called == 2 && g_arg2.p == input && g_arg2.n == length && agg_eqv(g_base_seen, g_res1.v), "postcondition: the input is parsed against the parsed base");
    __CPROVER_assert(w->has == g_res2.has && agg_eqv(w->v, g_res2.v), "postcondition: the handle holds exactly the result of the second parse");
  }
  ada_free(w);
  CANARY_POINT;
}
'''
OBLS.append(Obl('C17.ada_parse.faithful', ['C17', 'C02'], 'P#', PARSE, roots=['ada_parse', 'ada_parse_with_base', 'ada_free'], stub=['parse_agg'], specs={'parse_agg': P_SPEC},
                bufn=8, defines=['STR_CAP=4', 'BUF_START=1'], includes=INC + ['model/c17_parse_ghost.h'], globals=[('omitted', 'const unsigned int')], unwind=8, timeout=600,
                extra_flags=['--memory-leak-check'],
                note='ada_parse / ada_parse_with_base == ada::parse; handles are heap objects released by ada_free (leak check on)'))
