/* C01/C04.shorten_path: both overloads of helpers::shorten_path (std::string& used by ada::url, std::string_view& used by
 * ada::url_aggregator) implement the Standard's "shorten a url's path" on the serialized path ("/seg/seg..."):
 *   "If url's scheme is "file", path's size is 1, and path[0] is a normalized Windows drive letter, then return.
 *    Remove path's last item, if any."
 * path's size is 1 <=> the only '/' is the leading one; removing the last item <=> cutting at the last '/'.
 * One shared reference for the two overloads, hence they agree (twin contract). */
void harness(void) {
  HAVOC_BUFS;
  ND_SV(path);
  NONDET(int, type);
  __CPROVER_assume(type >= 0 && type <= 6);
  __CPROVER_assume(path.n == 0 || path.p[0] == '/');     /* a serialized list path is empty or starts with '/' (call sites: get_pathname() of a non-opaque URL, url.path) */
  size_t last = (size_t)-1, slashes = 0;
  for (size_t i = 0; i < path.n; i++) if (path.p[i] == '/') { last = i; slashes++; }
  _Bool lone_drive = type == E_ada_scheme_type_FILE && slashes == 1 && path.n == 3 && SPEC_ASCII_ALPHA(path.p[1]) && path.p[2] == ':';
  _Bool exp_ret = !lone_drive && slashes > 0;
  size_t exp_n = exp_ret ? last : path.n;
#ifndef ONLY_STR
  sv_t v = path;
  _Bool r1 = shorten_path_sv(&v, type);
  __CPROVER_assert(r1 == exp_ret, "postcondition: string_view overload shortens exactly when the Standard removes an item");
  __CPROVER_assert(v.p == path.p && v.n == exp_n, "postcondition: string_view overload cuts at the last '/' and nowhere else");
#endif
#ifndef ONLY_SV
  str_t s = str_ctor__sv(path);
  _Bool r2 = shorten_path_str(&s, type);
  __CPROVER_assert(r2 == exp_ret, "postcondition: std::string overload shortens exactly when the Standard removes an item");
  __CPROVER_assert(s.n == exp_n && (g_k >= exp_n || s.d[g_k] == path.p[g_k]), "postcondition: std::string overload cuts at the last '/' and nowhere else");
#endif
  CANARY_POINT;
}
