/* C01/C10/C05.try_parse_simple_absolute<url_aggregator>: whenever the fast path for absolute http(s) URLs accepts an input, the
 * object it builds is the one the Standard's parser + serializer prescribe for that input:
 *   - the input is  "http://" | "https://"  host  [ "/" path ]  [ "?" query ]  [ "#" fragment ]  with no credentials and no port;
 *   - the host, ASCII-lower-cased, is a plain domain: it does NOT end in a number (Standard's ends-in-a-number checker, which
 *     is case-insensitive about "0X"/hex digits -- such hosts must go through the IPv4 parser), has no label that starts
 *     with "xn--" (IDNA processing needed), and consists of bytes that domain-to-ASCII leaves alone;
 *   - the path has no single- or double-dot segment and no byte of the path percent-encode set, no '\';
 *   - the href is the input with the host lower-cased and "/" inserted when the path is empty; offsets partition it (WF). */
static _Bool ci_ends_in_number(const char *h, size_t n) {      /* URL Standard 3.5 "ends in a number checker", any letter case */
  if (n > 0 && h[n - 1] == '.') { n--; }
  if (n == 0) return 0;
  size_t start = n; while (start > 0 && h[start - 1] != '.') start--;
  size_t len = n - start; if (len == 0) return 0;
  _Bool all_digits = 1;
  for (size_t i = start; i < n; i++) if (!SPEC_ASCII_DIGIT(h[i])) all_digits = 0;
  if (all_digits) return 1;
  if (len >= 2 && h[start] == '0' && (h[start + 1] == 'x' || h[start + 1] == 'X')) {
    for (size_t i = start + 2; i < n; i++) if (!SPEC_ASCII_HEX(h[i])) return 0;
    return 1;
  }
  return 0;
}
void harness(void) {
  HAVOC_BUFS;
  ND_SV(input);
#ifdef FAST_URL
  struct url out = G_url_default;
  _Bool ok = try_parse_simple_absolute_url(input, &out);
#else
  struct url_aggregator out = G_url_aggregator_default;
  for (size_t i = 0; i <= STR_CAP; i++) out.buffer.d[i] = 0;
  _Bool ok = try_parse_simple_absolute_agg(input, &out);
#endif
  if (ok) {
    size_t n = input.n;
    size_t pe = (n >= 5 && input.p[4] == ':') ? 5 : 6;
    __CPROVER_assert(n >= 8 && input.p[0] == 'h' && input.p[1] == 't' && input.p[2] == 't' && input.p[3] == 'p' && (pe == 5 || input.p[4] == 's') &&
                     input.p[pe - 1] == ':' && input.p[pe] == '/' && input.p[pe + 1] == '/', "postcondition: only lower-case http:// or https:// inputs are accepted");
    size_t hs = pe + 2, he = hs;
    while (he < n && input.p[he] != '/' && input.p[he] != '?' && input.p[he] != '#') he++;
    __CPROVER_assert(he > hs, "postcondition: the host is not empty");
    for (size_t i = hs; i < he; i++) {
      char c = input.p[i];
      __CPROVER_assert(!SPEC_FORBIDDEN_DOMAIN(c) && U8(c) < 0x80, "postcondition: host bytes are ASCII and no forbidden domain code point (no ':' '@' '%' '[' '\\' ...)");
    }
    __CPROVER_assert(!ci_ends_in_number(input.p + hs, he - hs), "postcondition: a host that ends in a number is never accepted as a domain (it must go through the IPv4 parser)");
    for (size_t i = hs; i + 3 < he; i++)
      __CPROVER_assert(!((i == hs || input.p[i - 1] == '.') && SPEC_TO_LOWER(input.p[i]) == 'x' && SPEC_TO_LOWER(input.p[i + 1]) == 'n' && input.p[i + 2] == '-' && input.p[i + 3] == '-'),
                       "postcondition: a label starting with xn-- is never accepted (IDNA processing needed)");
    size_t ps = he, pend = ps;
    while (pend < n && input.p[pend] != '?' && input.p[pend] != '#') pend++;
    for (size_t i = ps; i < pend; i++) {
      char c = input.p[i];
      __CPROVER_assert(!SPEC_IN_PATH(c) && c != '\\' && c != '%', "postcondition: path bytes need no percent-encoding, no backslash, no escapes");
      if (c == '/') {   /* segment starting at i+1 */
        size_t a = i + 1, b = a; while (b < pend && input.p[b] != '/') b++;
        __CPROVER_assert(!((b - a == 1 && input.p[a] == '.') || (b - a == 2 && input.p[a] == '.' && input.p[a + 1] == '.')), "postcondition: no single- or double-dot path segment");
      }
    }
    size_t q = pend, qe = q;
    if (q < n && input.p[q] == '?') { qe = q + 1; while (qe < n && input.p[qe] != '#') qe++;
      for (size_t i = q + 1; i < qe; i++) __CPROVER_assert(!SPEC_IN_SPECIAL_QUERY(input.p[i]), "postcondition: query bytes need no percent-encoding (special-query set)"); }
    for (size_t i = qe + 1; i < n; i++) __CPROVER_assert(!SPEC_IN_FRAGMENT(input.p[i]), "postcondition: fragment bytes need no percent-encoding");
    /* the object */
#ifdef FAST_URL
    /* ada::url: the same URL, field by field (twin of the aggregator's layout below) */
    __CPROVER_assert(out.host.has && out.host.v.n == he - hs && (g_k >= he - hs || out.host.v.d[g_k] == SPEC_TO_LOWER(input.p[hs + g_k])), "postcondition: host field = host lower-cased");
    __CPROVER_assert(ps == pend ? (out.path.n == 1 && out.path.d[0] == '/') : (out.path.n == pend - ps && (g_k >= pend - ps || out.path.d[g_k] == input.p[ps + g_k])), "postcondition: path field = path, or '/' for an empty path");
    __CPROVER_assert(out.query.has == (q < n && input.p[q] == '?') && (!out.query.has || (out.query.v.n == qe - q - 1 && (g_k >= qe - q - 1 || out.query.v.d[g_k] == input.p[q + 1 + g_k]))), "postcondition: query field");
    __CPROVER_assert(out.hash.has == (qe < n) && (!out.hash.has || (out.hash.v.n == n - qe - 1 && (g_k >= n - qe - 1 || out.hash.v.d[g_k] == input.p[qe + 1 + g_k]))), "postcondition: fragment field");
    __CPROVER_assert(out.username.n == 0 && out.password.n == 0 && !out.port.has, "postcondition: no credentials, no port");
    __CPROVER_assert(out.base.is_valid && !out.base.has_opaque_path && out.base.host_type == 0 && out.base.type == (pe == 5 ? E_ada_scheme_type_HTTP : E_ada_scheme_type_HTTPS), "postcondition: record flags");
#else
    size_t ins = (ps == pend) ? 1 : 0;        /* "/" inserted for an empty path */
    __CPROVER_assert(out.buffer.n == n + ins, "postcondition: href length = input length (+1 for the inserted '/')");
    __CPROVER_assert(g_k >= n || (g_k < hs ? out.buffer.d[g_k] == input.p[g_k] : g_k < he ? out.buffer.d[g_k] == SPEC_TO_LOWER(input.p[g_k]) : out.buffer.d[g_k + ins] == input.p[g_k]),
                     "postcondition: href = input with the host lower-cased");
    __CPROVER_assert(!ins || out.buffer.d[he] == '/', "postcondition: '/' inserted for an empty path");
    __CPROVER_assert(out.components.protocol_end == pe && out.components.username_end == hs && out.components.host_start == hs && out.components.host_end == he &&
                     out.components.port == OMITTED && out.components.pathname_start == he, "postcondition: offsets of scheme, (empty) credentials, host, (no) port, path");
    __CPROVER_assert(out.components.search_start == (q < n && input.p[q] == '?' ? q + ins : OMITTED) && out.components.hash_start == (qe < n ? qe + ins : OMITTED), "postcondition: offsets of query and fragment");
    __CPROVER_assert(out.base.is_valid && !out.base.has_opaque_path && out.base.host_type == 0 && out.base.type == (pe == 5 ? E_ada_scheme_type_HTTP : E_ada_scheme_type_HTTPS), "postcondition: record flags");
    __CPROVER_assert(agg_wf(&out) && agg_validate(&out), "postcondition: the object is well formed and validate() accepts it");
#endif
  }
  CANARY_POINT;
}
