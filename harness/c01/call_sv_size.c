/* generic harness: call FN(view, location) with unconstrained arguments; the contract's requires restricts them */
void harness(void) {
  sv_t view; size_t location;
  HAVOC_BUFS; MAKE_SV(view);
  FN(view, location);
  CANARY_POINT;
}
