/* C15.canonicalize_{username,password,port,protocol,ipv6_hostname}: the self-contained URLPattern canonicalisers against the URLPattern
 * Standard's definitions (which go through the URL parser with a state override and the URL encode sets):
 *   username / password : UTF-8 percent-encode with the userinfo percent-encode set; never fails;
 *   port     : port state with state override on "fake://dummy.test": ASCII tab/newline removed; empty -> ""; first byte not a digit ->
 *              failure; otherwise the leading digit run read as an integer, > 65535 -> failure, else its decimal form without leading zeros;
 *   protocol : scheme state on value + "://dummy.test": first byte ASCII alpha, then ASCII alphanumeric / + - . -> the lower-cased
 *              scheme, anything else -> failure (inputs ending in ':' are ada's own convention and excluded here);
 *   search / hash : query / fragment state with state override (tab/newline removed, query resp. fragment percent-encode set);
 *   ipv6 hostname : only [ ] : and ASCII hex digits, lower-cased, else failure. */
void harness(void) {
  HAVOC_BUFS;
  ND_SV(input);
#if defined(CANON_USERINFO)
  char ref[3 * BUF_N + 1]; size_t rn = ref_percent_encode(input, G_USERINFO_PERCENT_ENCODE, ref);
  result_str_t_t u = canonicalize_username(input), p = canonicalize_password(input);
  __CPROVER_assert(u.has && ref_bytes_eq(u.v.d, u.v.n, ref, rn), "postcondition: canonicalize_username == userinfo percent-encoding, never fails");
  __CPROVER_assert(p.has && ref_bytes_eq(p.v.d, p.v.n, ref, rn), "postcondition: canonicalize_password == userinfo percent-encoding, never fails");
#elif defined(CANON_SEARCH) || defined(CANON_HASH)
  /* query / fragment state with state override on the non-special dummy URL: ASCII tab/newline removed, then the query (not the
   * special-query) resp. the fragment percent-encode set; never fails */
  char t[BUF_N + 1]; size_t tn = 0;
  for (size_t i = 0; i < input.n; i++) if (!SPEC_TAB_OR_NEWLINE(input.p[i])) t[tn++] = input.p[i];
  char ref[3 * BUF_N + 1];
#ifdef CANON_SEARCH
  size_t rn = ref_percent_encode((sv_t){t, tn}, G_QUERY_PERCENT_ENCODE, ref);
  result_str_t_t r = canonicalize_search(input);
#else
  size_t rn = ref_percent_encode((sv_t){t, tn}, G_FRAGMENT_PERCENT_ENCODE, ref);
  result_str_t_t r = canonicalize_hash(input);
#endif
  __CPROVER_assert(r.has && ref_bytes_eq(r.v.d, r.v.n, ref, rn), "postcondition: tab/newline removed, then percent-encoded with the component's set; never fails");
#elif defined(CANON_PORT)
  char t[BUF_N + 1]; size_t tn = 0;
  for (size_t i = 0; i < input.n; i++) if (!SPEC_TAB_OR_NEWLINE(input.p[i])) t[tn++] = input.p[i];
  size_t dg = 0; uint32_t val = 0; _Bool big = 0;
  while (dg < tn && SPEC_ASCII_DIGIT(t[dg])) { if (val <= 65535) val = val * 10 + (uint32_t)(t[dg] - '0'); if (val > 65535) big = 1; dg++; }
  result_str_t_t r = canonicalize_port(input);
  if (tn == 0) __CPROVER_assert(r.has && r.v.n == 0, "postcondition: empty (after removing tab/newline) -> empty string");
  else if (dg == 0 || big) __CPROVER_assert(!r.has, "postcondition: no leading digit, or a value above 65535 -> failure");
  else {
    char dec[6]; size_t dn = 0; uint32_t v = val; char tmp[6]; size_t k = 0;
    do { tmp[k++] = (char)('0' + v % 10); v /= 10; } while (v > 0);
    while (k > 0) dec[dn++] = tmp[--k];
    __CPROVER_assert(r.has && ref_bytes_eq(r.v.d, r.v.n, dec, dn), "postcondition: the digit run as a decimal number without leading zeros");
  }
#elif defined(CANON_PROTOCOL)
  __CPROVER_assume(input.n == 0 || input.p[input.n - 1] != ':');
  _Bool ok = input.n > 0 && SPEC_ASCII_ALPHA(input.p[0]);
  for (size_t i = 1; i < input.n; i++) if (!SPEC_SCHEME_CHAR(input.p[i])) ok = 0;
  result_str_t_t r = canonicalize_protocol(input);
  if (input.n == 0) __CPROVER_assert(r.has && r.v.n == 0, "postcondition: empty -> empty");
  else if (!ok) __CPROVER_assert(!r.has, "postcondition: not a scheme -> failure");
  else __CPROVER_assert(r.has && r.v.n == input.n && (g_k >= input.n || r.v.d[g_k] == SPEC_TO_LOWER(input.p[g_k])), "postcondition: the lower-cased scheme");
#else
  _Bool ok = 1;
  for (size_t i = 0; i < input.n; i++) { char c = input.p[i]; if (!(c == '[' || c == ']' || c == ':' || SPEC_ASCII_HEX(c))) ok = 0; }
  result_str_t_t r = canonicalize_ipv6_hostname(input);
  if (!ok) __CPROVER_assert(!r.has, "postcondition: a byte other than [ ] : or a hex digit -> failure");
  else __CPROVER_assert(r.has && r.v.n == input.n && (g_k >= input.n || r.v.d[g_k] == SPEC_TO_LOWER(input.p[g_k])), "postcondition: lower-cased input");
#endif
  CANARY_POINT;
}
