/* C08.can_parse.dispatch: for every input length, base length and maximum length L, can_parse(input, base) returns exactly
 * parse(base).has_value() && parse(input, base).has_value() -- given what the three callees decide (abstract), and given the
 * expansion bound of normalization:  |href| <= 3 * (|input| + |base|) + NORMALIZATION_SLACK.
 * Percent-encoding alone is 3x (C11); the slack covers what host normalization and the serializer add on top of it
 * (IPv4 shorthand "ws:1" -> "ws://0.0.0.1/": 4 -> 13 bytes; "//", "/", "/."; punycode of a short last label).  A shortcut
 * that assumes a pure 3x bound answers `true` for inputs whose normalized href exceeds L. */
#ifndef NORMALIZATION_SLACK
#define NORMALIZATION_SLACK 16
#endif
void harness(void) {
  sv_t input, base; NONDET(size_t, in_n); NONDET(size_t, base_n); NONDET(_Bool, has_base);
  input.p = g_buf; input.n = in_n; base.p = g_buf2; base.n = base_n;     /* the bytes are never read: every callee is abstract */
  __CPROVER_assume(in_n <= 0xFFFFFFFFu && base_n <= 0xFFFFFFFFu);
  g_in_p = input.p;
  I_struct = nondet_bool(); B_struct = nondet_bool();
  size_t combined = in_n + (has_base ? base_n : 0);
  __CPROVER_assume(B_hsize <= 3 * base_n + NORMALIZATION_SLACK);
  __CPROVER_assume(I_hsize <= 3 * combined + NORMALIZATION_SLACK);
  _Bool r = can_parse(input, has_base ? &base : (const sv_t *)0);
  _Bool in_ok = in_n <= LIMIT && I_struct && I_hsize <= LIMIT;
  _Bool base_ok = base_n <= LIMIT && B_struct && B_hsize <= LIMIT;
  _Bool expected = has_base ? (base_ok && in_ok) : in_ok;
  __CPROVER_assert(r == expected, "postcondition: can_parse == parse(base).has_value() && parse(input, base).has_value()");
  CANARY_POINT;
}
