/* C08.try_can_parse_absolute_fast.sound (bounded): whenever the fast validator of can_parse answers, the reference (written
 * from the Standard for the class of inputs it may answer on) decides the same; it never answers outside that class. */
void harness(void) {
  HAVOC_BUFS;
  ND_SV(input);
  opt_Bool_t r = try_can_parse_absolute_fast(input);
  int e = ref_can_parse_class(input);
  __CPROVER_assert(!r.has || e != 2, "postcondition: the fast validator answers only on inputs the Standard-derived reference decides");
  __CPROVER_assert(!r.has || e == 2 || r.v == (e == 1), "postcondition: the fast answer equals what parse would decide");
  CANARY_POINT;
}
