/* C01/C11.path_signature_table.exact: bit0 <=> byte is in the path percent-encode set (needs encoding),
 * bit1 <=> '\', bit2 <=> '.', bit3 <=> '%'; nothing else. */
void harness(void) {
  NONDET(uint8_t, c);
  uint8_t t = G_path_signature_table.a[c];
  __CPROVER_assert(((t & 1) != 0) == (SPEC_IN_PATH(c) ? 1 : 0), "postcondition: bit0 <=> in path percent-encode set");
  __CPROVER_assert(((t & 2) != 0) == (c == '\\'), "postcondition: bit1 <=> backslash");
  __CPROVER_assert(((t & 4) != 0) == (c == '.'), "postcondition: bit2 <=> dot");
  __CPROVER_assert(((t & 8) != 0) == (c == '%'), "postcondition: bit3 <=> percent");
  __CPROVER_assert((t & 0xF0) == 0, "postcondition: no other bits");
  CANARY_POINT;
}
