/* C01.k_rest.sound: path/query/fragment bytes of the fast path.  class 0 in the path loop = byte copied verbatim:
 * must not be in the path percent-encode set, not '\' (special URLs treat it as '/'), not '%' (could be %2e), and not
 * '?' / '#'.  The query loop accepts class != 2 plus '?' and '%': none of them may be in the special-query set
 * ('#' ends the query).  The fragment loop accepts class != 2 plus '?', '#', '%': none may be in the fragment set. */
void harness(void) {
  NONDET(uint8_t, c);
  uint8_t k = G_k_rest.a[c];
  __CPROVER_assert(k <= 2, "postcondition: class in {0,1,2}");
  __CPROVER_assert(k != 0 || (!SPEC_IN_PATH(c) && c != '\\' && c != '%' && c != '?' && c != '#'), "postcondition: path class 0 => verbatim-safe path byte");
  __CPROVER_assert((k == 1) == (c == '?' || c == '#'), "postcondition: class 1 <=> ? #");
  _Bool q_ok = (c != '#') && (c == '?' || c == '%' || k != 2);
  __CPROVER_assert(!q_ok || !SPEC_IN_SPECIAL_QUERY(c), "postcondition: byte accepted in query is not in the special-query encode set");
  _Bool f_ok = (c == '?' || c == '#' || c == '%' || k != 2);
  __CPROVER_assert(!f_ok || !SPEC_IN_FRAGMENT(c), "postcondition: byte accepted in fragment is not in the fragment encode set");
  __CPROVER_assert(!(SPEC_ASCII_ALNUM(c) || c == '-' || c == '.' || c == '_' || c == '~' || c == '/' || c == '=' || c == '&') || k == 0, "postcondition: ordinary path/query bytes are class 0");
  CANARY_POINT;
}
