/* C15.char_class_table: the shortcut tables of the URLPattern canonicalisers are sound w.r.t. the URL parser's rules:
 *  CHAR_SCHEME (1)          <=> a byte the scheme state accepts (ASCII alphanumeric + - .);
 *  CHAR_UPPER (2)           <=> A-Z;
 *  CHAR_SIMPLE_HOSTNAME (4)  => lower-case letter, digit, '-' or '.': never a forbidden domain code point, never changed by
 *                               domain-to-ASCII on an ASCII host;
 *  CHAR_SIMPLE_PATHNAME (8)  => a byte the path state copies verbatim: not in the path percent-encode set, not '\', '%',
 *                               '?', '#', and not '.', so no dot segment can be formed. */
void harness(void) {
  NONDET(uint8_t, c);
  uint8_t t = G_char_class_table.a[c];
  __CPROVER_assert(((t & 1) != 0) == (SPEC_SCHEME_CHAR(c) ? 1 : 0), "postcondition: CHAR_SCHEME <=> scheme-state byte");
  __CPROVER_assert(((t & 2) != 0) == (SPEC_ASCII_UPPER_ALPHA(c) ? 1 : 0), "postcondition: CHAR_UPPER <=> A-Z");
  __CPROVER_assert(!(t & 4) || ((SPEC_ASCII_LOWER_ALPHA(c) || SPEC_ASCII_DIGIT(c) || c == '-' || c == '.') && !SPEC_FORBIDDEN_DOMAIN(c)), "postcondition: CHAR_SIMPLE_HOSTNAME => [a-z0-9.-], not forbidden");
  __CPROVER_assert(!(t & 8) || (!SPEC_IN_PATH(c) && c != '\\' && c != '%' && c != '?' && c != '#' && c != '.'), "postcondition: CHAR_SIMPLE_PATHNAME => verbatim-safe path byte, no dot");
  __CPROVER_assert((t & 0xF0) == 0, "postcondition: no other flags");
  CANARY_POINT;
}
