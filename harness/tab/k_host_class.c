/* C01.k_host_class.sound: the fast path of parse (try_parse_simple_absolute) treats a byte with class 0 as a host
 * byte copied verbatim (lower-cased), class 1 as the end of the host.  Sound iff class 0 bytes are printable ASCII that
 * are not forbidden domain code points (so the Standard's host parser would keep them unchanged apart from case),
 * and class 1 is exactly '/', '?', '#'. */
void harness(void) {
  NONDET(uint8_t, c);
  uint8_t k = G_k_host_class.a[c];
  __CPROVER_assert(k <= 2, "postcondition: class in {0,1,2}");
  __CPROVER_assert(k != 0 || (c >= 0x21 && c <= 0x7E && !SPEC_FORBIDDEN_DOMAIN(c)), "postcondition: class 0 => printable, not a forbidden domain code point");
  __CPROVER_assert((k == 1) == (c == '/' || c == '?' || c == '#'), "postcondition: class 1 <=> / ? #");
  /* not over-strict on the common alphabet: letters, digits, '-', '.', '_' , '~' are host bytes */
  __CPROVER_assert(!(SPEC_ASCII_ALNUM(c) || c == '-' || c == '.' || c == '_' || c == '~') || k == 0, "postcondition: ordinary host bytes are class 0");
  CANARY_POINT;
}
