/* byte classifiers of unicode.cpp / checkers-inl.h against the Standard's definitions, all 256 values */
void harness(void) {
  NONDET(uint8_t, u); char c = (char)u;
  __CPROVER_assert(is_forbidden_host_code_point(c) == (SPEC_FORBIDDEN_HOST(u) ? 1 : 0), "postcondition: forbidden host code point table exact");
  __CPROVER_assert(is_forbidden_domain_code_point(c) == ((SPEC_FORBIDDEN_DOMAIN(u) || u >= 0x80) ? 1 : 0), "postcondition: forbidden domain code point table exact (bytes >= 0x80 cannot be in an ASCII domain)");
  __CPROVER_assert(is_alnum_plus(c) == (SPEC_SCHEME_CHAR(u) ? 1 : 0), "postcondition: is_alnum_plus <=> ASCII alphanumeric + - .");
  __CPROVER_assert(is_ascii_hex_digit(c) == (SPEC_ASCII_HEX(u) ? 1 : 0), "postcondition: is_ascii_hex_digit exact");
  __CPROVER_assert(is_ascii_digit(c) == (SPEC_ASCII_DIGIT(u) ? 1 : 0), "postcondition: is_ascii_digit exact");
  __CPROVER_assert(is_digit(c) == (SPEC_ASCII_DIGIT(u) ? 1 : 0), "postcondition: checkers::is_digit exact");
  __CPROVER_assert(is_alpha(c) == (SPEC_ASCII_ALPHA(u) ? 1 : 0), "postcondition: checkers::is_alpha <=> ASCII alpha");
  __CPROVER_assert(is_c0_control_or_space(c) == (SPEC_C0_OR_SPACE(u) ? 1 : 0), "postcondition: is_c0_control_or_space exact");
  __CPROVER_assert(is_ascii_tab_or_newline(c) == (SPEC_TAB_OR_NEWLINE(u) ? 1 : 0), "postcondition: is_ascii_tab_or_newline exact");
  __CPROVER_assert(is_tabs_or_newline(c) == (SPEC_TAB_OR_NEWLINE(u) ? 1 : 0), "postcondition: is_tabs_or_newline exact");
  __CPROVER_assert(is_lowercase_hex(c) == (SPEC_LOWER_HEX(u) ? 1 : 0), "postcondition: is_lowercase_hex exact");
  __CPROVER_assert(!SPEC_ASCII_UPPER_ALPHA(u) || to_lower(c) == (char)(u + 32), "postcondition: to_lower maps A-Z to a-z");
  __CPROVER_assert(!SPEC_ASCII_LOWER_ALPHA(u) || to_lower(c) == c, "postcondition: to_lower keeps a-z");
  /* or_upper table: 1 = forbidden, 2 = upper-case ASCII, 0 = fine */
  uint8_t t = G_is_forbidden_domain_code_point_table_or_upper.a[u];
  __CPROVER_assert(t == ((SPEC_FORBIDDEN_DOMAIN(u) || u >= 0x80) ? 1 : SPEC_ASCII_UPPER_ALPHA(u) ? 2 : 0), "postcondition: forbidden-or-upper table exact");
  /* hex decoding tables */
  __CPROVER_assert(!SPEC_ASCII_HEX(u) || convert_hex_to_binary(c) == SPEC_HEXVAL(u), "postcondition: convert_hex_to_binary on hex digits = digit value");
  __CPROVER_assert(G_unhex_table.a[u] == (SPEC_ASCII_HEX(u) ? SPEC_HEXVAL(u) : 0xFF), "postcondition: unhex_table exact");
  __CPROVER_assert(G_hex_nibble.a[u] == (SPEC_ASCII_HEX(u) ? SPEC_HEXVAL(u) : 0xFF), "postcondition: hex_nibble exact");
  __CPROVER_assert(G_authority_delimiter.a[u] == (AUTH_DELIM(c) ? 1 : 0), "postcondition: authority_delimiter table exact");
  __CPROVER_assert(G_authority_delimiter_special.a[u] == (AUTH_DELIM_SPECIAL(c) ? 1 : 0), "postcondition: authority_delimiter_special table exact");
  CANARY_POINT;
}
