/* C04/C10.parse_ipv4.twin: ada::url::parse_ipv4 and ada::url_aggregator::parse_ipv4 satisfy ONE shared contract, the
 * Standard's IPv4 parser + serializer: both succeed exactly when ref_ipv4 does, both fail by clearing is_valid, and on success
 * both store the dotted-decimal serialization of the same address and mark the host as IPv4 -- hence they agree. */
void harness(void) {
  HAVOC_BUFS;
  ND_SV(input);
  /* call-site pre-condition of both parse_ipv4: the host ends in a number (checkers::is_ipv4, C10.is_ipv4.ends_in_number) and has been
   * lower-cased (IDNA output / to_lower_ascii).  Without it e.g. "1.2.3.4.." -- which the ends-in-a-number checker sends to the domain
   * branch -- would be accepted after the one trailing dot is dropped. */
  __CPROVER_assume(ref_ends_in_number(input));
  for (size_t i_ = 0; i_ < input.n; i_++) __CPROVER_assume(!SPEC_ASCII_UPPER_ALPHA(input.p[i_]));
  uint32_t addr = 0;
  _Bool ok = ref_ipv4(input, &addr);
  char ref[16]; size_t rn = ref_ipv4_serialize(addr, ref);
#ifndef ONLY_AGG
  /* ada::url */
  struct url u = G_url_default;
  _Bool r1 = url_parse_ipv4(&u, input);
  __CPROVER_assert(r1 == ok, "postcondition: url::parse_ipv4 succeeds exactly when the Standard's IPv4 parser does");
  if (ok) {
    __CPROVER_assert(u.host.has && ref_bytes_eq(u.host.v.d, u.host.v.n, ref, rn), "postcondition: url stores the dotted-decimal serialization of the Standard's address");
    __CPROVER_assert(u.base.host_type == 1 && u.base.is_valid, "postcondition: url marks the host as IPv4 and stays valid");
  } else __CPROVER_assert(!u.base.is_valid, "postcondition: url failure clears is_valid");
#endif
#ifndef ONLY_URL
  /* ada::url_aggregator (text handed to update_base_hostname is recorded by the abstract editor) */
  struct url_aggregator a = G_url_aggregator_default;
  g_host_written = 0;
  _Bool r2 = agg_parse_ipv4(&a, input, 0);
  __CPROVER_assert(r2 == ok, "postcondition: url_aggregator::parse_ipv4 succeeds exactly when the Standard's IPv4 parser does");
  if (ok) {
    __CPROVER_assert(g_host_written == 1 && ref_bytes_eq(g_host.d, g_host.n, ref, rn), "postcondition: aggregator writes the dotted-decimal serialization of the Standard's address");
    __CPROVER_assert(a.base.host_type == 1 && a.base.is_valid, "postcondition: aggregator marks the host as IPv4 and stays valid");
  } else __CPROVER_assert(!a.base.is_valid, "postcondition: aggregator failure clears is_valid");
#endif
  CANARY_POINT;
}
