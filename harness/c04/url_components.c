/* C04/C07.url.get_components: ada::url does not store offsets; get_components() recomputes them from the fields.  Together with
 * get_href() they must form exactly what ada::url_aggregator stores for the same URL: the offsets partition the href in the
 * aggregator's layout (spec/agg_wf.h: protocol_end, username_end, host_start on the '@' when there are credentials, host_end ONE
 * PAST the host, port, pathname_start, search_start, hash_start), each slice is the corresponding field, and get_href_size() is
 * the href's length.  Hence get_components() of the two types agree (they are both the unique WF decomposition of the same href). */
#define FIELD_NO(s, c1, c2, c3, c4, c5) wf_no_byte((s).d, 0, (s).n, c1, c2, c3, c4, c5)
void harness(void) {
  ND_URL(u);
  __CPROVER_assume(URL_SHAPE(&u));
  /* the record class of ada::url (what the parser and the setters produce) */
  _Bool special = u.base.type != E_ada_scheme_type_NOT_SPECIAL;
  __CPROVER_assume(special || (u.non_special_scheme.n >= 1 && FIELD_NO(u.non_special_scheme, ':', '/', '?', '#', '@')));
  __CPROVER_assume(FIELD_NO(u.username, ':', '@', '/', '?', '#') && FIELD_NO(u.password, ':', '@', '/', '?', '#'));
  __CPROVER_assume(!u.host.has || (FIELD_NO(u.host.v, '@', '/', '?', '#', '\\') && ((u.host.v.n > 0 && u.host.v.d[0] == '[') || FIELD_NO(u.host.v, ':', ':', ':', ':', ':'))));
  __CPROVER_assume(FIELD_NO(u.path, '?', '#', '#', '#', '#'));
  __CPROVER_assume(!u.query.has || FIELD_NO(u.query.v, '#', '#', '#', '#', '#'));
  __CPROVER_assume(u.base.has_opaque_path ? !u.host.has : (u.path.n == 0 || u.path.d[0] == '/'));
  __CPROVER_assume(!(u.username.n > 0 || u.password.n > 0 || u.port.has) || (u.host.has && u.host.v.n > 0));
  __CPROVER_assume(!u.base.has_opaque_path || !(u.path.n >= 2 && u.path.d[0] == '/' && u.path.d[1] == '/'));
  size_t total = url_get_href_size(&u);
  __CPROVER_assume(total <= STR_CAP);
  str_t href = url_get_href(&u);
  struct url_components c = url_get_components(&u);
  __CPROVER_assert(href.n == total, "postcondition: get_href_size() is the length of get_href()");
  struct url_aggregator a; a.base = u.base; a.buffer = href; a.components = c;
  for (size_t i = href.n; i <= STR_CAP; i++) a.buffer.d[i] = 0;
  agg_view_t v; _Bool wf = agg_wf_view(&a, &v);
  __CPROVER_assert(c.protocol_end <= href.n && c.protocol_end >= 2 && href.d[c.protocol_end - 1] == ':', "postcondition: protocol_end is one past the ':' of the scheme");
  __CPROVER_assert(wf, "postcondition: get_components() partitions get_href() in the aggregator's layout (host_end one past the host, username_end at the end of the username, ...)");
  if (wf) {
    __CPROVER_assert(view_sv_eq(v.username, str_sv(&u.username)) && view_sv_eq(v.password, str_sv(&u.password)) && v.has_password == (u.password.n > 0), "postcondition: credentials slices == fields");
    __CPROVER_assert(v.has_authority == u.host.has && (!u.host.has || view_sv_eq(v.host, str_sv(&u.host.v))), "postcondition: host slice == host field");
    __CPROVER_assert(v.has_port == u.port.has && (!u.port.has || c.port == u.port.v), "postcondition: port == port field");
    __CPROVER_assert(view_sv_eq(v.path, str_sv(&u.path)), "postcondition: path slice == path field");
    __CPROVER_assert(v.has_search == u.query.has && (!u.query.has || view_sv_eq(v.search, str_sv(&u.query.v))), "postcondition: query slice == query field");
    __CPROVER_assert(v.has_hash == u.hash.has && (!u.hash.has || view_sv_eq(v.hash, str_sv(&u.hash.v))), "postcondition: fragment slice == fragment field");
  }
  CANARY_POINT;
}
