/* C06.punycode.adapt: the bias adaptation function of the real Punycode codec equals RFC 3492 section 6.1 for delta >= 0 and numpoints >= 1
 * (bounded: delta < 2^ADAPT_DBITS, numpoints <= ADAPT_NMAX), with the RFC's parameter values
 * base 36, tmin 1, tmax 26, skew 38, damp 700.  Digit <-> code point maps: RFC 3492 section 5 (lower-case form). */
static int32_t rfc_adapt(int32_t delta, int32_t numpoints, _Bool firsttime) {
  if (firsttime) delta = delta / 700; else delta = delta / 2;
  delta = delta + (delta / numpoints);
  int32_t k = 0;
  while (delta > ((36 - 1) * 26) / 2) { delta = delta / (36 - 1); k = k + 36; }
  return k + (((36 - 1 + 1) * delta) / (delta + 38));
}
void harness(void) {
  NONDET(int, d); NONDET(int, n); NONDET(_Bool, firsttime);
  __CPROVER_assume(d >= 0 && n >= 1);
#ifdef ADAPT_BOUND
  __CPROVER_assume(d < (1 << ADAPT_DBITS) && n <= ADAPT_NMAX);   /* bounded stand-in: symbolic division by a wide divisor does not terminate on any installed back end */
#endif
  __CPROVER_assert(idna_adapt(d, n, firsttime) == rfc_adapt(d, n, firsttime), "postcondition: adapt == RFC 3492 6.1 bias adaptation");
  NONDET(int, digit);
  __CPROVER_assume(digit >= 0 && digit < 36);
  char c = idna_digit_to_char(digit);
  __CPROVER_assert(c == (digit < 26 ? 'a' + digit : '0' + (digit - 26)), "postcondition: digit_to_char: 0..25 -> a..z, 26..35 -> 0..9");
  __CPROVER_assert(idna_char_to_digit_value(c) == digit, "postcondition: char_to_digit_value inverts digit_to_char");
  NONDET(char, x);
  int v = idna_char_to_digit_value(x);
  __CPROVER_assert(v == (x >= 'a' && x <= 'z' ? x - 'a' : x >= '0' && x <= '9' ? x - '0' + 26 : -1), "postcondition: char_to_digit_value accepts exactly a..z and 0..9 (labels are lower-cased before decoding)");
  CANARY_POINT;
}
