/* generic harness: call FN(view) with an unconstrained view; the contract's requires restricts it */
void harness(void) {
  sv_t view;
  HAVOC_BUFS; MAKE_SV(view);
  FN(view);
  CANARY_POINT;
}
