/* C11.decode_encode.roundtrip (bounded): for every set that contains '%' (e.g. the form set) decoding the encoding
 * returns the input; for the form codec additionally with ' ' <-> '+'. */
void harness(void) {
  HAVOC_BUFS;
  ND_SV(input);
  uint8_t set[32];
  ND_FILL_U8(set, set, 32);
  __CPROVER_assume(BIT_AT(set, '%'));
  str_t e = percent_encode(input, set);
  sv_t ev = str_sv(&e);
  size_t fp = 0; while (fp < ev.n && ev.p[fp] != '%') fp++;
  str_t d = percent_decode(ev, fp < ev.n ? fp : NPOS);
  __CPROVER_assert(ref_bytes_eq(d.d, d.n, input.p, input.n), "postcondition: percent_decode(percent_encode(x, S)) == x when % is in S");
  /* form codec: encode with the real form set, turn spaces into '+', decode */
  str_t f = percent_encode(input, G_WWW_FORM_URLENCODED_PERCENT_ENCODE);
  for (size_t i = 0; i < f.n; i++) if (f.d[i] == ' ') f.d[i] = '+';
  str_t g = form_urlencoded_decode(str_sv(&f));
  __CPROVER_assert(ref_bytes_eq(g.d, g.n, input.p, input.n), "postcondition: form_urlencoded_decode(serialize(x)) == x");
  CANARY_POINT;
}
