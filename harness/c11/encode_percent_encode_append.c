/* C11.percent_encode_append.exact (bounded): the encoder entry point produces exactly the reference encoding, for an
 * ARBITRARY 256-bit set (so in particular for the seven sets of the Standard) and every input of up to BUF_N bytes. */
void harness(void) {
  HAVOC_BUFS;
  ND_SV(input);
  uint8_t set[32];
  ND_FILL_U8(set, set, 32);
  char ref[3 * BUF_N + 1];
  size_t rn = ref_percent_encode(input, set, ref);
  _Bool any = 0;
  for (size_t i = 0; i < input.n; i++) if (BIT_AT(set, input.p[i])) any = 1;
  str_t out; out.n = nondet_size(); __CPROVER_assume(out.n <= 2); out.d[out.n] = 0;
  str_t old = out;
  _Bool r = percent_encode_append(input, set, &out);
  __CPROVER_assert(r == any, "postcondition: percent_encode<true> returns true iff some byte is in the set");
  if (!r) __CPROVER_assert(ref_bytes_eq(out.d, out.n, old.d, old.n), "postcondition: percent_encode<true> leaves out unchanged when nothing needs encoding");
  else {
    __CPROVER_assert(out.n == old.n + rn, "postcondition: percent_encode<true> appends the encoding (length)");
    __CPROVER_assert(ref_bytes_eq(out.d, old.n, old.d, old.n), "postcondition: percent_encode<true> keeps the old contents");
    __CPROVER_assert(ref_bytes_eq(out.d + old.n, rn, ref, rn), "postcondition: percent_encode<true> appends the reference encoding");
  }
  CANARY_POINT;
}
