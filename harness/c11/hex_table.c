/* C11.hex.table : hex + 4*c is '%' followed by the two UPPER-case hex digits of c, then NUL. */
void harness(void) {
  NONDET(uint8_t, c);
  const char *e = G_hex + (size_t)c * 4;
  __CPROVER_assert(e[0] == '%', "postcondition: escape starts with %");
  __CPROVER_assert(e[1] == SPEC_HEXU(c >> 4), "postcondition: high nibble upper-case hex");
  __CPROVER_assert(e[2] == SPEC_HEXU(c & 15), "postcondition: low nibble upper-case hex");
  __CPROVER_assert(e[3] == 0, "postcondition: entries are 4 bytes apart");
  CANARY_POINT;
}
