/* C11.percent_encode.exact (bounded): the encoder entry point produces exactly the reference encoding, for an
 * ARBITRARY 256-bit set (so in particular for the seven sets of the Standard) and every input of up to BUF_N bytes. */
void harness(void) {
  HAVOC_BUFS;
  ND_SV(input);
  uint8_t set[32];
  ND_FILL_U8(set, set, 32);
  char ref[3 * BUF_N + 1];
  size_t rn = ref_percent_encode(input, set, ref);
  _Bool any = 0;
  for (size_t i = 0; i < input.n; i++) if (BIT_AT(set, input.p[i])) any = 1;
  str_t a = percent_encode(input, set);
  __CPROVER_assert(ref_bytes_eq(a.d, a.n, ref, rn), "postcondition: percent_encode(input,set) == reference encoding");
  /* used as a skeleton contract by C05.parse_url_impl.opaque_path_no_trailing_space: for a set without the space, the output
   * ends in a space exactly when the input does (an escape ends in a hex digit, a verbatim byte is copied) */
  __CPROVER_assert(BIT_AT(set, ' ') || ((a.n > 0 && a.d[a.n - 1] == ' ') == (input.n > 0 && input.p[input.n - 1] == ' ')), "postcondition: trailing space preserved exactly (set without space)");
  CANARY_POINT;
}
