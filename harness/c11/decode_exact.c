/* C11.percent_decode / form_urlencoded_decode exact (bounded): equal the Standard's percent-decode (and its
 * urlencoded variant with '+' -> space) on every input up to BUF_N bytes, malformed escapes literal. */
void harness(void) {
  HAVOC_BUFS;
  ND_SV(input);
  char ref[BUF_N + 1];
  size_t rn = ref_percent_decode(input, ref, 0);
  size_t fp = 0; while (fp < input.n && input.p[fp] != '%') fp++;
  NONDET(size_t, first_percent);      /* call sites pass input.find('%'); any position up to it is equivalent; npos = copy */
  __CPROVER_assume(first_percent <= fp || first_percent == NPOS);
  str_t a = percent_decode(input, first_percent);
  if (first_percent == NPOS)
    __CPROVER_assert(ref_bytes_eq(a.d, a.n, input.p, input.n), "postcondition: percent_decode(npos) copies the input");
  else
    __CPROVER_assert(ref_bytes_eq(a.d, a.n, ref, rn), "postcondition: percent_decode == the Standard's percent-decode");
  char ref2[BUF_N + 1];
  size_t rn2 = ref_percent_decode(input, ref2, 1);
  str_t b = form_urlencoded_decode(input);
  __CPROVER_assert(ref_bytes_eq(b.d, b.n, ref2, rn2), "postcondition: form_urlencoded_decode == percent-decode with + as space");
  CANARY_POINT;
}
