/* C11.percent_encode_idx.exact (bounded): the encoder entry point produces exactly the reference encoding, for an
 * ARBITRARY 256-bit set (so in particular for the seven sets of the Standard) and every input of up to BUF_N bytes. */
void harness(void) {
  HAVOC_BUFS;
  ND_SV(input);
  uint8_t set[32];
  ND_FILL_U8(set, set, 32);
  char ref[3 * BUF_N + 1];
  size_t rn = ref_percent_encode(input, set, ref);
  _Bool any = 0;
  for (size_t i = 0; i < input.n; i++) if (BIT_AT(set, input.p[i])) any = 1;
  /* index = first byte to encode (its only call pattern: percent_encode_index is called first) */
  size_t idx = percent_encode_index(input, set);
  str_t b = percent_encode_idx(input, set, idx);
  __CPROVER_assert(ref_bytes_eq(b.d, b.n, ref, rn), "postcondition: percent_encode(input,set,index) == reference encoding");
  CANARY_POINT;
}
