/* C11.set.<NAME>.membership : for every byte value, the real bit_at() on the real (compiler-computed) set
 * answers exactly the Standard's definition of that percent-encode set.  Loop-free, whole byte domain. */
void harness(void) {
  NONDET(uint8_t, c);
  _Bool in_set = bit_at(SETNAME, c);
  __CPROVER_assert(in_set == (SPECSET(c) ? 1 : 0), "postcondition: byte is in the encode set exactly when the Standard says so");
  CANARY_POINT;
}
