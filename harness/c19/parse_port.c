/* C19/C03/C05.parse_port.value: the port state of the URL Standard on the real url_aggregator::parse_port (std::from_chars
 * modelled): the leading run of ASCII digits is the port; a value above 65535 is a failure; a port equal to the scheme's
 * default port is not stored (null); otherwise exactly that value is stored; when the caller asks for it, anything but
 * '/', '?' ('\' for special URLs) or the end after the digits is a failure; a leading '-' (which from_chars would not
 * accept anyway) is a failure.  Return value = number of bytes consumed = length of the digit run. */
void harness(void) {
  HAVOC_BUFS;
  ND_SV(view);
  struct url_aggregator u; u.base.is_valid = 1; u.base.has_opaque_path = 0;
  __CPROVER_assume(AGG_SHAPE(&u));
  NONDET(_Bool, check_trailing_content);
  g_port_op = 0;
  size_t digits = 0; uint32_t val = 0; _Bool too_big = 0;
  while (digits < view.n && view.p[digits] >= '0' && view.p[digits] <= '9') {
    if (val <= 65535) val = val * 10 + (uint32_t)(view.p[digits] - '0');
    if (val > 65535) too_big = 1;
    digits++;
  }
  _Bool special = u.base.type != E_ada_scheme_type_NOT_SPECIAL;
  uint32_t dflt = u.base.type == E_ada_scheme_type_HTTP || u.base.type == E_ada_scheme_type_WS ? 80 :
                  u.base.type == E_ada_scheme_type_HTTPS || u.base.type == E_ada_scheme_type_WSS ? 443 :
                  u.base.type == E_ada_scheme_type_FTP ? 21 : 0;
  _Bool trailing_ok = digits == view.n || view.p[digits] == '/' || view.p[digits] == '?' || (special && view.p[digits] == '\\');
  _Bool expect_valid = !(view.n > 0 && view.p[0] == '-') && !too_big && (!check_trailing_content || trailing_ok);
  size_t consumed = agg_parse_port(&u, view, check_trailing_content);
  __CPROVER_assert((u.base.is_valid != 0) == expect_valid, "postcondition: parse_port fails exactly on '-', a value above 65535, or illegal trailing content");
  if (expect_valid) {
    __CPROVER_assert(consumed == digits, "postcondition: consumed = length of the digit run");
    if (digits == 0) __CPROVER_assert(g_port_op == 2, "postcondition: no digits: the port is null");
    else if (dflt != 0 && val == dflt) __CPROVER_assert(g_port_op == 2, "postcondition: the scheme's default port is never stored");
    else __CPROVER_assert(g_port_op == 1 && g_port_val == val, "postcondition: exactly the parsed value (<= 65535) is stored");
  } else {
    __CPROVER_assert(g_port_op == 0, "postcondition: a failed port parse does not touch the stored port");
  }
  CANARY_POINT;
}
