#include "c07/common.h"
/* C07.clear_hostname: host := empty string (authority kept) */
void harness(void) {
  EDITOR_PROLOGUE
  __CPROVER_assume(v0.username.n == 0 && !v0.has_password && !v0.has_port);   /* callers refuse otherwise */

  agg_clear_hostname(&u);
  EDITOR_EPILOGUE(F_HOST)
  __CPROVER_assert(u.buffer.n <= old.buffer.n, "postcondition: a clear operation never lengthens the href");
  if (wf1) {
    __CPROVER_assert(v1.host.n == 0, "postcondition: empty host");
  }
  CANARY_POINT;
}
