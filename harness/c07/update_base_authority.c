#define PENDING_OK 1
#include "c07/common.h"
/* C07.update_base_authority: the parser's relative states copy the base URL's credentials (and the "//") into a URL that so far
 * holds only the base's scheme (copy_scheme() ran just before; the host follows through update_host_to_base_host()).
 * Whole view: same scheme; username, password and password presence equal the base's; authority marker as in the base;
 * no host yet (pending state when there are credentials), no port, empty path, no query, no fragment. */
void harness(void) {
  HAVOC_BUFS;
  ND_AGG(base); agg_view_t vb; (void)agg_wf_view(&base, &vb);
  __CPROVER_assume(!vb.pending_at);
  struct url_aggregator u = G_url_aggregator_default;
  u.base.is_valid = 1; u.base.has_opaque_path = 0; u.base.type = base.base.type; u.base.host_type = 0;
  uint32_t pe = base.components.protocol_end;
  u.buffer.n = pe;
  for (size_t i = 0; i < STR_CAP; i++) u.buffer.d[i] = i < pe ? base.buffer.d[i] : 0;
  u.buffer.d[STR_CAP] = 0;
  u.components.protocol_end = u.components.username_end = u.components.host_start = u.components.host_end = u.components.pathname_start = pe;
  u.components.port = OMITTED; u.components.search_start = OMITTED; u.components.hash_start = OMITTED;
  __CPROVER_assume(agg_wf(&u));
  struct url_aggregator old = u;
  __CPROVER_assume(base.buffer.n + 1 <= STR_CAP);

  agg_update_base_authority(&u, str_sv(&base.buffer), &base.components);

  agg_view_t v1; _Bool wf1 = agg_wf_view(&u, &v1);
  __CPROVER_assert(wf1, "postcondition: WF re-established (offsets partition the href, delimiters in place)");
  __CPROVER_assert(agg_validate(&u), "postcondition: the library's own validate() accepts the result");
  __CPROVER_assert(u.base.type == old.base.type && u.base.has_opaque_path == old.base.has_opaque_path && u.base.host_type == old.base.host_type, "postcondition: record flags untouched");
  if (wf1) {
    __CPROVER_assert(view_sv_eq(v1.scheme, vb.scheme), "postcondition: scheme unchanged");
    __CPROVER_assert(view_sv_eq(v1.username, vb.username), "postcondition: username is the base's username");
    __CPROVER_assert(v1.has_password == vb.has_password && view_sv_eq(v1.password, vb.password), "postcondition: password is the base's password");
    __CPROVER_assert(v1.has_authority == vb.has_authority, "postcondition: authority marker as in the base");
    __CPROVER_assert(v1.host.n == 0 && !v1.has_port && !v1.dash_dot && v1.path.n == 0 && !v1.has_search && !v1.has_hash, "postcondition: nothing but scheme and credentials");
    __CPROVER_assert(v1.pending_at == (vb.username.n > 0 || vb.has_password), "postcondition: credentials leave the URL in the parser's pending state until the host is copied");
  }
  CANARY_POINT;
}
