#define PENDING_OK 1
#include "c07/common.h"
/* C07.append_base_username: username := username ++ input (parser, "%40" and encoded userinfo pieces) */
void harness(void) {
  EDITOR_PROLOGUE
  ND_SV(input);
  __CPROVER_assume(IN_CLASS(input, ':', '@', '/', '?', '#'));
  __CPROVER_assume(!v0.dash_dot && !old.base.has_opaque_path);
  /* parser state: authority being built, host not yet written */
  __CPROVER_assume(v0.host.n == 0 && !v0.has_port && !v0.has_password);
  /* ... and nothing after it yet: the only call sites are in the authority state, where the URL holds its scheme and what the
   * authority state itself has appended */
  __CPROVER_assume(u.components.pathname_start == u.buffer.n && !v0.has_search && !v0.has_hash);
  __CPROVER_assume(u.buffer.n + input.n + 3 <= STR_CAP);

  agg_append_base_username(&u, input);
  EDITOR_EPILOGUE(F_USER | F_AUTH)
  if (wf1) {
    __CPROVER_assert(v1.username.n == v0.username.n + input.n && view_sv_eq((sv_t){v1.username.p, v0.username.n}, v0.username) && view_sv_eq((sv_t){v1.username.p + v0.username.n, input.n}, input), "postcondition: username is old username followed by input");
    __CPROVER_assert(v1.has_authority, "postcondition: authority present");
  }
  CANARY_POINT;
}
