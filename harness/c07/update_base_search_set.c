#include "c07/common.h"
/* C07.update_base_search_set: query := percent-encode(input, set) -- query / special-query set chosen by the caller */
void harness(void) {
  EDITOR_PROLOGUE
  ND_SV(input);
  uint8_t set[32];
  ND_FILL_U8(set, set, 32);
  __CPROVER_assume(BIT_AT(set, '#'));   /* both query sets contain #, so the stored query cannot contain one */
  char ref[3 * BUF_N + 1]; size_t rn = ref_percent_encode(input, set, ref);
  __CPROVER_assume(u.buffer.n + rn + 1 <= STR_CAP);

  agg_update_base_search_set(&u, input, set);
  EDITOR_EPILOGUE(F_SEARCH)
  if (wf1) {
    __CPROVER_assert(v1.has_search, "postcondition: query present (possibly empty)");
    __CPROVER_assert(view_sv_eq(v1.search, (sv_t){ref, rn}), "postcondition: query is the reference percent-encoding of the input");
  }
  CANARY_POINT;
}
