#include "c07/common.h"
/* C07.set_protocol_as_file: scheme := "file" */
void harness(void) {
  EDITOR_PROLOGUE
  __CPROVER_assume(u.buffer.n + 5 <= STR_CAP);

  agg_set_protocol_as_file(&u);
  EDITOR_EPILOGUE(F_SCHEME)
  if (wf1) {
    __CPROVER_assert(view_sv_eq(v1.scheme, SV_LIT("file")), "postcondition: scheme is file");
  }
  CANARY_POINT;
}
