#include "c07/common.h"
/* C07.clear_password: password := null */
void harness(void) {
  EDITOR_PROLOGUE

  __CPROVER_assume(v0.username.n > 0);   /* its only caller removes an empty username (and the "@") right after */
  agg_clear_password(&u);
  EDITOR_EPILOGUE(F_PASS)
  __CPROVER_assert(u.buffer.n <= old.buffer.n, "postcondition: a clear operation never lengthens the href");
  if (wf1) {
    __CPROVER_assert(!v1.has_password && v1.password.n == 0, "postcondition: no password");
  }
  CANARY_POINT;
}
