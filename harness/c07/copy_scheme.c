#include "c07/common.h"
/* C07.copy_scheme: the parser copies the base URL's scheme into the fresh (default-constructed) result; afterwards the URL is the
 * WF object holding exactly that scheme. */
void harness(void) {
  HAVOC_BUFS;
  ND_AGG(base); agg_view_t vb; (void)agg_wf_view(&base, &vb);
  __CPROVER_assume(!vb.pending_at);
  struct url_aggregator u = G_url_aggregator_default;
  u.base.is_valid = 1;
  for (size_t i = 0; i <= STR_CAP; i++) u.buffer.d[i] = 0;
  agg_copy_scheme(&u, &base);
  agg_view_t v1; _Bool wf1 = agg_wf_view(&u, &v1);
  __CPROVER_assert(wf1, "postcondition: WF established");
  __CPROVER_assert(agg_validate(&u), "postcondition: the library's own validate() accepts the result");
  __CPROVER_assert(u.base.type == base.base.type, "postcondition: scheme type is the base's");
  if (wf1) {
    __CPROVER_assert(view_sv_eq(v1.scheme, vb.scheme), "postcondition: scheme is the base's scheme");
    __CPROVER_assert(!v1.has_authority && v1.username.n == 0 && !v1.has_password && v1.host.n == 0 && !v1.has_port && !v1.dash_dot && v1.path.n == 0 && !v1.has_search && !v1.has_hash, "postcondition: nothing but the scheme");
  }
  CANARY_POINT;
}
