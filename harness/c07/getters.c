#include "c07/common.h"
/* C07.getters.slices: on every WF aggregator each real getter returns the slice of the href that the offsets delimit
 * (URL API conventions: protocol ends with ':', search/hash start with '?'/'#' and read as empty when the query/fragment
 * is null OR empty, host = hostname [":" port]), the presence predicates agree with the view, get_href() is the buffer,
 * get_href_size() its length, and the pieces re-assemble the href byte for byte. */
static size_t put(char *out, size_t k, sv_t v) { for (size_t i = 0; i < v.n; i++) out[k + i] = v.p[i]; return k + v.n; }
void harness(void) {
  ND_AGG(u); agg_view_t v; (void)agg_wf_view(&u, &v);
  /* the 'credentials written, @ and host not yet' state exists only inside the parser between the AUTHORITY and HOST states
   * (the editors that run there are checked with PENDING_OK); it is never the state of an object handed to a caller */
  __CPROVER_assume(!v.pending_at);
  const char *b = u.buffer.d;
  sv_t proto = agg_get_protocol(&u), user = agg_get_username(&u), pass = agg_get_password(&u), host = agg_get_host(&u),
       hostname = agg_get_hostname(&u), port = agg_get_port(&u), path = agg_get_pathname(&u), search = agg_get_search(&u),
       hash = agg_get_hash(&u), href = agg_get_href(&u);
  __CPROVER_assert(proto.p == b && proto.n == v.scheme.n + 1, "postcondition: protocol is scheme + ':' at offset 0");
  __CPROVER_assert(view_sv_eq(user, v.username), "postcondition: username getter == view");
  __CPROVER_assert(view_sv_eq(pass, v.password), "postcondition: password getter == view");
  __CPROVER_assert(view_sv_eq(hostname, v.host), "postcondition: hostname getter == view");
  __CPROVER_assert(view_sv_eq(port, v.port_digits), "postcondition: port getter == port digits");
  __CPROVER_assert(view_sv_eq(path, v.path), "postcondition: pathname getter == view");
  __CPROVER_assert(search.n == (v.has_search && v.search.n > 0 ? v.search.n + 1 : 0), "postcondition: search is '?'+query, empty for null or empty query");
  __CPROVER_assert(search.n == 0 || (search.p[0] == '?' && view_sv_eq((sv_t){search.p + 1, search.n - 1}, v.search)), "postcondition: search content");
  __CPROVER_assert(hash.n == (v.has_hash && v.hash.n > 0 ? v.hash.n + 1 : 0), "postcondition: hash is '#'+fragment, empty for null or empty fragment");
  __CPROVER_assert(hash.n == 0 || (hash.p[0] == '#' && view_sv_eq((sv_t){hash.p + 1, hash.n - 1}, v.hash)), "postcondition: hash content");
  __CPROVER_assert(host.n == (v.host.n == 0 ? 0 : v.host.n + (v.has_port ? 1 + v.port_digits.n : 0)), "postcondition: host = hostname[:port] (length)");
  __CPROVER_assert(host.n == 0 || host.p == v.host.p, "postcondition: host starts at the hostname");
  __CPROVER_assert(href.p == b && href.n == u.buffer.n && agg_get_href_size(&u) == u.buffer.n, "postcondition: href is the buffer, href size its length");
  __CPROVER_assert(agg_has_search(&u) == v.has_search && agg_has_hash(&u) == v.has_hash, "postcondition: has_search / has_hash");
  __CPROVER_assert(agg_has_port(&u) == v.has_port && agg_has_password(&u) == v.has_password, "postcondition: has_port / has_password");
  __CPROVER_assert(agg_has_hostname(&u) == v.has_authority && agg_has_authority(&u) == v.has_authority, "postcondition: has_hostname <=> authority");
  __CPROVER_assert(agg_has_non_empty_username(&u) == (v.username.n > 0) && agg_has_non_empty_password(&u) == (v.password.n > 0), "postcondition: non-empty credentials predicates");
  __CPROVER_assert(agg_has_credentials(&u) == (v.username.n > 0 || v.password.n > 0), "postcondition: has_credentials");
  __CPROVER_assert(agg_has_empty_hostname(&u) == (v.has_authority && v.host.n == 0), "postcondition: has_empty_hostname");
  __CPROVER_assert(agg_has_dash_dot(&u) == v.dash_dot, "postcondition: has_dash_dot");
  __CPROVER_assert(agg_validate(&u), "postcondition: validate() accepts every WF object");
  __CPROVER_assert(agg_get_pathname_length(&u) == v.path.n && agg_is_at_path(&u) == (u.components.pathname_start == u.buffer.n), "postcondition: pathname length / is_at_path");
  /* re-assembly */
  char out[STR_CAP + 8]; size_t k = 0;
  k = put(out, k, proto);
  if (v.has_authority) { out[k++] = '/'; out[k++] = '/'; k = put(out, k, user); if (v.has_password) { out[k++] = ':'; k = put(out, k, pass); }
    if (v.username.n > 0 || v.has_password) out[k++] = '@'; k = put(out, k, hostname); if (v.has_port) { out[k++] = ':'; k = put(out, k, port); } }
  if (v.dash_dot) { out[k++] = '/'; out[k++] = '.'; }
  k = put(out, k, path);
  if (v.has_search) { out[k++] = '?'; k = put(out, k, v.search); }
  if (v.has_hash) { out[k++] = '#'; k = put(out, k, v.hash); }
  __CPROVER_assert(k == u.buffer.n, "postcondition: re-assembled length == href length");
  __CPROVER_assert(view_sv_eq((sv_t){out, k}, href), "postcondition: re-assembling the getters reproduces the href byte for byte");
  CANARY_POINT;
}
