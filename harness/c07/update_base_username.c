#include "c07/common.h"
/* C07.update_base_username: username := input (already percent-encoded by the caller); the "@" appears/disappears with the credentials */
void harness(void) {
  EDITOR_PROLOGUE
  ND_SV(input);
  __CPROVER_assume(IN_CLASS(input, ':', '@', '/', '?', '#'));
  __CPROVER_assume(v0.has_authority && v0.host.n > 0);   /* set_username refuses when cannot_have_credentials_or_port() */
  __CPROVER_assume(u.buffer.n + input.n + 1 <= STR_CAP);

  agg_update_base_username(&u, input);
  EDITOR_EPILOGUE(F_USER)
  if (wf1) {
    __CPROVER_assert(view_sv_eq(v1.username, input), "postcondition: username is the input");
  }
  CANARY_POINT;
}
