#include "c07/common.h"
/* C07.update_base_pathname: path := input; the "/." guard is inserted/removed as the serializer requires */
void harness(void) {
  EDITOR_PROLOGUE
  ND_SV(input);
  __CPROVER_assume(IN_CLASS(input, '?', '#', '#', '#', '#'));
  __CPROVER_assume(old.base.has_opaque_path || input.n == 0 || input.p[0] == '/');
  __CPROVER_assume(u.buffer.n + input.n + 2 <= STR_CAP);

  agg_update_base_pathname(&u, input);
  EDITOR_EPILOGUE(F_PATH | F_DASH)
  if (wf1) {
    __CPROVER_assert(view_sv_eq(v1.path, input), "postcondition: pathname is the input");
    __CPROVER_assert(v1.dash_dot == (!v1.has_authority && !old.base.has_opaque_path && input.n >= 2 && input.p[0] == '/' && input.p[1] == '/'), "postcondition: /. present exactly when host is null and the path starts with //");
  }
  CANARY_POINT;
}
