#include "c07/common.h"
/* C07.clear_pathname: path := empty (and the "/." guard with it) */
void harness(void) {
  EDITOR_PROLOGUE

  agg_clear_pathname(&u);
  EDITOR_EPILOGUE(F_PATH | F_DASH)
  __CPROVER_assert(u.buffer.n <= old.buffer.n, "postcondition: a clear operation never lengthens the href");
  if (wf1) {
    __CPROVER_assert(v1.path.n == 0 && !v1.dash_dot, "postcondition: empty path, no /. guard");
  }
  CANARY_POINT;
}
