#include "c07/common.h"
/* C07.clear_port: port := null */
void harness(void) {
  EDITOR_PROLOGUE

  agg_clear_port(&u);
  EDITOR_EPILOGUE(F_PORT)
  __CPROVER_assert(u.buffer.n <= old.buffer.n, "postcondition: a clear operation never lengthens the href");
  if (wf1) {
    __CPROVER_assert(!v1.has_port && u.components.port == OMITTED, "postcondition: no port");
  }
  CANARY_POINT;
}
