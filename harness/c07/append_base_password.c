#define PENDING_OK 1
#include "c07/common.h"
/* C07.append_base_password: password := password ++ input (parser authority state: "%40" and encoded userinfo pieces) */
void harness(void) {
  EDITOR_PROLOGUE
  ND_SV(input);
  __CPROVER_assume(IN_CLASS(input, ':', '@', '/', '?', '#'));
  __CPROVER_assume(!v0.dash_dot && !old.base.has_opaque_path);
  /* parser state: authority being built, host not yet written, nothing after it (the only call sites are in the authority state) */
  __CPROVER_assume(v0.host.n == 0 && !v0.has_port);
  __CPROVER_assume(u.components.pathname_start == u.buffer.n && !v0.has_search && !v0.has_hash);
  __CPROVER_assume(u.buffer.n + input.n + 4 <= STR_CAP);

  agg_append_base_password(&u, input);
  EDITOR_EPILOGUE(F_PASS | F_AUTH)
  if (wf1) {
    __CPROVER_assert(v1.password.n == v0.password.n + input.n && view_sv_eq((sv_t){v1.password.p, v0.password.n}, v0.password) && view_sv_eq((sv_t){v1.password.p + v0.password.n, input.n}, input), "postcondition: password is the old password followed by the input");
    __CPROVER_assert(v1.has_password == (v0.has_password || input.n > 0), "postcondition: the ':' appears with the first password byte");
    __CPROVER_assert(v1.has_authority, "postcondition: authority present");
  }
  CANARY_POINT;
}
