#define PENDING_OK 1
#include "c07/common.h"
/* C07.update_base_hostname: host := input, "//" added if there was no authority; nothing else changes */
void harness(void) {
  EDITOR_PROLOGUE
  ND_SV(input);
  __CPROVER_assume(IN_CLASS(input, '@', '/', '?', '#', '\\'));
  __CPROVER_assume((input.n > 0 && input.p[0] == '[') || IN_CLASS(input, ':', ':', ':', ':', ':'));
  __CPROVER_assume(!v0.dash_dot && !old.base.has_opaque_path);          /* call sites: dash-dot is deleted by the caller right after */
  __CPROVER_assume(input.n > 0 || (v0.username.n == 0 && !v0.has_password && !v0.has_port));
  __CPROVER_assume(!v0.pending_at || input.n > 0);
  __CPROVER_assume(u.buffer.n + input.n + 3 <= STR_CAP);
  agg_update_base_hostname(&u, input);
  EDITOR_EPILOGUE(F_HOST | F_AUTH)
  if (wf1) {
    __CPROVER_assert(view_sv_eq(v1.host, input), "postcondition: hostname is the input");
    __CPROVER_assert(v1.has_authority, "postcondition: the URL has an authority");
  }
  CANARY_POINT;
}
