#include "c07/common.h"
/* C07.update_base_password: password := input; empty input removes the password (and the ":" ) */
void harness(void) {
  EDITOR_PROLOGUE
  ND_SV(input);
  __CPROVER_assume(IN_CLASS(input, ':', '@', '/', '?', '#'));
  __CPROVER_assume(v0.has_authority && v0.host.n > 0);
  __CPROVER_assume(u.buffer.n + input.n + 2 <= STR_CAP);

  agg_update_base_password(&u, input);
  EDITOR_EPILOGUE(F_PASS)
  if (wf1) {
    __CPROVER_assert(view_sv_eq(v1.password, input), "postcondition: password is the input");
    __CPROVER_assert(v1.has_password == (input.n > 0), "postcondition: a password delimiter is present iff the password is non-empty");
  }
  CANARY_POINT;
}
