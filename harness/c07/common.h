/* shared by the C07 editor obligations: an arbitrary WF aggregator, a snapshot of its view, whole-view comparison */
#if defined(NATIVE_REPLAY)
/* native replay: the recorded field values of the counterexample */
#define ND_AGG(u) struct url_aggregator u; memset(&u, 0, sizeof u); W_INIT_##u; __CPROVER_assume(agg_wf(&u))
#elif defined(WITNESS)
/* counterexample extraction: every field is an explicit assignment visible in the trace */
#define ND_AGG(u) struct url_aggregator u; u.base.is_valid = 1; u.base.has_opaque_path = nondet_bool(); u.base.host_type = nondet_int(); u.base.type = nondet_int(); \
  u.buffer.n = nondet_size(); for (size_t i_ = 0; i_ <= STR_CAP; i_++) u.buffer.d[i_] = nondet_char(); \
  u.components.protocol_end = nondet_unsigned(); u.components.username_end = nondet_unsigned(); u.components.host_start = nondet_unsigned(); u.components.host_end = nondet_unsigned(); \
  u.components.port = nondet_unsigned(); u.components.pathname_start = nondet_unsigned(); u.components.search_start = nondet_unsigned(); u.components.hash_start = nondet_unsigned(); \
  __CPROVER_assume(agg_wf(&u))
#else
#define ND_AGG(u) struct url_aggregator u; u.base.is_valid = 1; u.base.has_opaque_path = nondet_bool(); __CPROVER_assume(agg_wf(&u))
#endif
#define IN_CLASS(v, c1, c2, c3, c4, c5) wf_no_byte((v).p, 0, (v).n, c1, c2, c3, c4, c5)
/* every component of the new view equals the old one, except those named in `skip` (bit mask) */
enum { F_SCHEME = 1, F_AUTH = 2, F_USER = 4, F_PASS = 8, F_HOST = 16, F_PORT = 32, F_DASH = 64, F_PATH = 128, F_SEARCH = 256, F_HASH = 512 };
static inline void assert_view_unchanged(const agg_view_t *a, const agg_view_t *b, unsigned skip) {
  if (!(skip & F_SCHEME)) __CPROVER_assert(view_sv_eq(a->scheme, b->scheme), "postcondition: scheme unchanged");
  if (!(skip & F_AUTH)) __CPROVER_assert(a->has_authority == b->has_authority, "postcondition: authority presence unchanged");
  if (!(skip & F_USER)) __CPROVER_assert(view_sv_eq(a->username, b->username), "postcondition: username unchanged");
  if (!(skip & F_PASS)) __CPROVER_assert(a->has_password == b->has_password && view_sv_eq(a->password, b->password), "postcondition: password unchanged");
  if (!(skip & F_HOST)) __CPROVER_assert(view_sv_eq(a->host, b->host), "postcondition: host unchanged");
  if (!(skip & F_PORT)) __CPROVER_assert(a->has_port == b->has_port && view_sv_eq(a->port_digits, b->port_digits), "postcondition: port unchanged");
  if (!(skip & F_DASH)) __CPROVER_assert(a->dash_dot == b->dash_dot, "postcondition: /. guard unchanged");
  if (!(skip & F_PATH)) __CPROVER_assert(view_sv_eq(a->path, b->path), "postcondition: path unchanged");
  if (!(skip & F_SEARCH)) __CPROVER_assert(a->has_search == b->has_search && view_sv_eq(a->search, b->search), "postcondition: query unchanged");
  if (!(skip & F_HASH)) __CPROVER_assert(a->has_hash == b->has_hash && view_sv_eq(a->hash, b->hash), "postcondition: fragment unchanged");
}
#ifndef PENDING_OK
#define PENDING_OK 0   /* only the parser-phase editors accept the 'credentials without @ yet' state */
#endif
#define EDITOR_PROLOGUE \
  HAVOC_BUFS; ND_AGG(u); struct url_aggregator old = u; agg_view_t v0; (void)agg_wf_view(&old, &v0); \
  __CPROVER_assume(PENDING_OK || !v0.pending_at);
#define EDITOR_EPILOGUE(skip) \
  agg_view_t v1; _Bool wf1 = agg_wf_view(&u, &v1); \
  __CPROVER_assert(wf1, "postcondition: WF re-established (offsets partition the href, delimiters in place)"); \
  __CPROVER_assert(agg_validate(&u), "postcondition: the library's own validate() accepts the result"); \
  __CPROVER_assert((((skip) & F_SCHEME) || u.base.type == old.base.type) && u.base.has_opaque_path == old.base.has_opaque_path && u.base.host_type == old.base.host_type, "postcondition: record flags untouched"); \
  if (wf1) assert_view_unchanged(&v0, &v1, (skip));
