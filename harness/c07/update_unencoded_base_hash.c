#include "c07/common.h"
/* C07.update_unencoded_base_hash: fragment := percent-encode(input, fragment set) */
void harness(void) {
  EDITOR_PROLOGUE
  ND_SV(input);
  char ref[3 * BUF_N + 1]; size_t rn = ref_percent_encode(input, G_FRAGMENT_PERCENT_ENCODE, ref);
  __CPROVER_assume(u.buffer.n + rn + 1 <= STR_CAP);

  agg_update_unencoded_base_hash(&u, input);
  EDITOR_EPILOGUE(F_HASH)
  if (wf1) {
    __CPROVER_assert(v1.has_hash, "postcondition: fragment present");
    __CPROVER_assert(view_sv_eq(v1.hash, (sv_t){ref, rn}), "postcondition: fragment is the reference percent-encoding with the fragment set");
  }
  CANARY_POINT;
}
