#include "c07/common.h"
/* C07.clear_search: query := null */
void harness(void) {
  EDITOR_PROLOGUE

  agg_clear_search(&u);
  EDITOR_EPILOGUE(F_SEARCH)
  __CPROVER_assert(u.buffer.n <= old.buffer.n, "postcondition: a clear operation never lengthens the href");
  if (wf1) {
    __CPROVER_assert(!v1.has_search, "postcondition: no query");
  }
  CANARY_POINT;
}
