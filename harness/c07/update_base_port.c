#include "c07/common.h"
/* C07.update_base_port: port := value (or cleared when omitted); ":" + decimal digits between host and path */
void harness(void) {
  EDITOR_PROLOGUE
  NONDET(uint32_t, port);
  __CPROVER_assume(port <= 65535 || port == OMITTED);
  __CPROVER_assume(v0.has_authority && v0.host.n > 0);
  __CPROVER_assume(u.buffer.n + 6 <= STR_CAP + 2);   /* the capacity assumption inside the model still applies */

  agg_update_base_port(&u, port);
  EDITOR_EPILOGUE(F_PORT)
  if (wf1) {
    __CPROVER_assert(v1.has_port == (port != OMITTED), "postcondition: port present iff a value was given");
    __CPROVER_assert(u.components.port == port, "postcondition: stored port value is the argument (its digits are checked by WF)");
  }
  CANARY_POINT;
}
