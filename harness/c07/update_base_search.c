#include "c07/common.h"
/* C07.update_base_search: query := input without one leading "?"; empty input clears the query (used to copy a base query) */
void harness(void) {
  EDITOR_PROLOGUE
  ND_SV(input);
  __CPROVER_assume(IN_CLASS(input, '#', '#', '#', '#', '#'));
  __CPROVER_assume(u.buffer.n + input.n + 1 <= STR_CAP);

  agg_update_base_search(&u, input);
  EDITOR_EPILOGUE(F_SEARCH)
  if (wf1) {
    sv_t q = input; if (q.n > 0 && q.p[0] == '?') { q.p++; q.n--; }
    __CPROVER_assert(v1.has_search == (input.n > 0), "postcondition: query present iff input non-empty");
    __CPROVER_assert(!v1.has_search || view_sv_eq(v1.search, q), "postcondition: query is the input without its leading ?");
  }
  CANARY_POINT;
}
