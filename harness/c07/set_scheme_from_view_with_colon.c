#include "c07/common.h"
/* C07.set_scheme_from_view_with_colon: scheme := input-with-colon minus the colon */
void harness(void) {
  EDITOR_PROLOGUE
  ND_SV(input);
  __CPROVER_assume(input.n >= 2 && input.p[input.n - 1] == ':' && wf_no_byte(input.p, 0, input.n - 1, ':', '/', '?', '#', '@'));
  __CPROVER_assume(u.buffer.n + input.n <= STR_CAP);

  agg_set_scheme_from_view_with_colon(&u, input);
  EDITOR_EPILOGUE(F_SCHEME)
  if (wf1) {
    __CPROVER_assert(view_sv_eq(v1.scheme, (sv_t){input.p, input.n - 1}), "postcondition: scheme is the input without the colon");
  }
  CANARY_POINT;
}
