#include "c07/common.h"
/* C07.append_base_pathname: path := path ++ input */
void harness(void) {
  EDITOR_PROLOGUE
  ND_SV(input);
  __CPROVER_assume(IN_CLASS(input, '?', '#', '#', '#', '#'));
  __CPROVER_assume(v0.path.n > 0 || old.base.has_opaque_path || input.n == 0 || input.p[0] == '/');
  __CPROVER_assume(v0.has_authority || v0.dash_dot || old.base.has_opaque_path || !(v0.path.n == 1 && input.n > 0 && input.p[0] == '/') );
  __CPROVER_assume(v0.has_authority || v0.dash_dot || old.base.has_opaque_path || !(v0.path.n == 0 && input.n > 1 && input.p[1] == '/') );
  __CPROVER_assume(u.buffer.n + input.n <= STR_CAP);

  agg_append_base_pathname(&u, input);
  EDITOR_EPILOGUE(F_PATH)
  if (wf1) {
    __CPROVER_assert(v1.path.n == v0.path.n + input.n && view_sv_eq((sv_t){v1.path.p, v0.path.n}, v0.path) && view_sv_eq((sv_t){v1.path.p + v0.path.n, input.n}, input), "postcondition: pathname is old pathname followed by input");
  }
  CANARY_POINT;
}
