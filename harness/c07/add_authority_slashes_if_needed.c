#include "c07/common.h"
/* C07.add_authority_slashes_if_needed: "scheme:" becomes "scheme://" (empty host) when no authority is present */
void harness(void) {
  EDITOR_PROLOGUE
  __CPROVER_assume(!v0.dash_dot && !old.base.has_opaque_path);
  __CPROVER_assume(u.buffer.n + 2 <= STR_CAP);

  agg_add_authority_slashes_if_needed(&u);
  EDITOR_EPILOGUE(F_AUTH)
  if (wf1) {
    __CPROVER_assert(v1.has_authority, "postcondition: authority present");
  }
  CANARY_POINT;
}
