#include "c07/common.h"
/* C07.set_scheme: scheme := input (lower-case, without colon), type recomputed */
void harness(void) {
  EDITOR_PROLOGUE
  ND_SV(input);
  __CPROVER_assume(input.n >= 1 && IN_CLASS(input, ':', '/', '?', '#', '@'));
  __CPROVER_assume(u.buffer.n + input.n <= STR_CAP);

  agg_set_scheme(&u, input);
  EDITOR_EPILOGUE(F_SCHEME)
  if (wf1) {
    __CPROVER_assert(view_sv_eq(v1.scheme, input), "postcondition: scheme is the input");
  }
  CANARY_POINT;
}
