#include "c07/common.h"
/* C07.clear_hash: fragment := null */
void harness(void) {
  EDITOR_PROLOGUE

  agg_clear_hash(&u);
  EDITOR_EPILOGUE(F_HASH)
  __CPROVER_assert(u.buffer.n <= old.buffer.n, "postcondition: a clear operation never lengthens the href");
  if (wf1) {
    __CPROVER_assert(!v1.has_hash, "postcondition: no fragment");
  }
  CANARY_POINT;
}
