/* C09.parse_url_impl<url_aggregator,true>.exit_size: whatever the editors do to the buffer (they are abstract here), no exit
 * of the parser hands out a URL that is marked valid and longer than the configured maximum L -- for every L, every input
 * (up to BUF_N bytes, which drives the state machine through all of its states) and every base URL (none, or an arbitrary
 * valid aggregator).  An exit that forgets the final size check fails this obligation. */
void harness(void) {
  HAVOC_BUFS;
  ND_SV(user_input);
  struct url_aggregator base; base.base.is_valid = nondet_bool(); base.base.has_opaque_path = nondet_bool();
  __CPROVER_assume(AGG_SHAPE(&base));
  __CPROVER_assume(!base.base.is_valid || base.buffer.n <= g_max_input_length);   /* a base handed out by the library obeys the limit */
  const struct url_aggregator *bp = nondet_bool() ? &base : (const struct url_aggregator *)0;
  struct url_aggregator r = parse_url_impl_agg_1(user_input, bp);
  __CPROVER_assert(!r.base.is_valid || r.buffer.n <= g_max_input_length, "postcondition: a URL handed out as valid is no longer than the configured maximum length");
  __CPROVER_assert(!(user_input.n > g_max_input_length) || !r.base.is_valid, "postcondition: an input longer than the maximum length is refused");
  CANARY_POINT;
}
