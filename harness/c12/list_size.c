/* C12.reset / initialize / append (size only): the number of pairs in the list after reset(input) is exactly the number of pairs the
 * application/x-www-form-urlencoded parser yields for input -- one per NON-EMPTY byte sequence between '&' after a single leading '?' has
 * been removed -- whatever the list held before; append adds exactly one pair.  The parameter list is abstracted to its size
 * (contents: C11 decoders). */
void harness(void) {
  HAVOC_BUFS;
  ND_SV(input);
  struct url_search_params p; p.params.n = nondet_size();
  __CPROVER_assume(p.params.n <= 1000);
  size_t start = (input.n > 0 && input.p[0] == '?') ? 1 : 0, expect = 0, seg = 0;
  for (size_t i = start; i < input.n; i++) { if (input.p[i] == '&') { if (seg > 0) expect++; seg = 0; } else seg++; }
  if (seg > 0) expect++;
  usp_reset(&p, input);
  __CPROVER_assert(p.params.n == expect, "postcondition: reset(input) leaves exactly the pairs of input (one per non-empty sequence), nothing of the old list");
  __CPROVER_assert(usp_size(&p) == expect, "postcondition: size() is the number of pairs");
  usp_append(&p, input, input);
  __CPROVER_assert(p.params.n == expect + 1, "postcondition: append adds exactly one pair");
  CANARY_POINT;
}
