/* C12.sort.comparator: the comparator that url_search_params::sort hands to std::ranges::stable_sort
 *  (a) on well-formed UTF-8 keys is exactly "less than" on the sequences of UTF-16 code units (the Standard sorts by code units);
 *  (b) on ARBITRARY byte strings is a strict weak ordering (irreflexive, asymmetric, transitive, transitive incomparability) --
 *      the precondition of stable_sort: without it the sort is undefined behaviour.
 * Keys up to KEYN bytes. */
#ifndef KEYN
#define KEYN 4
#endif
/* reference: UTF-8 -> UTF-16 code units (well-formed input assumed by the caller); returns number of units */
static size_t ref_utf16(const str_t *s, uint16_t *out) {
  size_t i = 0, k = 0;
  while (i < s->n) {
    uint8_t c = (uint8_t)s->d[i]; uint32_t cp;
    if (c < 0x80) { cp = c; i += 1; }
    else if (c < 0xE0) { cp = ((c & 0x1F) << 6) | ((uint8_t)s->d[i + 1] & 0x3F); i += 2; }
    else if (c < 0xF0) { cp = ((c & 0x0F) << 12) | (((uint8_t)s->d[i + 1] & 0x3F) << 6) | ((uint8_t)s->d[i + 2] & 0x3F); i += 3; }
    else { cp = ((c & 0x07) << 18) | (((uint8_t)s->d[i + 1] & 0x3F) << 12) | (((uint8_t)s->d[i + 2] & 0x3F) << 6) | ((uint8_t)s->d[i + 3] & 0x3F); i += 4; }
    if (cp >= 0x10000) { cp -= 0x10000; out[k++] = (uint16_t)(0xD800 + (cp >> 10)); out[k++] = (uint16_t)(0xDC00 + (cp & 0x3FF)); }
    else out[k++] = (uint16_t)cp;
  }
  return k;
}
/* well-formed UTF-8 (Unicode Standard table 3-7) */
static _Bool ref_utf8_ok(const str_t *s) {
  size_t i = 0;
  while (i < s->n) {
    uint8_t c = (uint8_t)s->d[i];
#define CB(k, lo, hi) (i + (k) < s->n && (uint8_t)s->d[i + (k)] >= (lo) && (uint8_t)s->d[i + (k)] <= (hi))
    if (c < 0x80) i += 1;
    else if (c >= 0xC2 && c <= 0xDF) { if (!CB(1, 0x80, 0xBF)) return 0; i += 2; }
    else if (c == 0xE0) { if (!(CB(1, 0xA0, 0xBF) && CB(2, 0x80, 0xBF))) return 0; i += 3; }
    else if ((c >= 0xE1 && c <= 0xEC) || c == 0xEE || c == 0xEF) { if (!(CB(1, 0x80, 0xBF) && CB(2, 0x80, 0xBF))) return 0; i += 3; }
    else if (c == 0xED) { if (!(CB(1, 0x80, 0x9F) && CB(2, 0x80, 0xBF))) return 0; i += 3; }
    else if (c == 0xF0) { if (!(CB(1, 0x90, 0xBF) && CB(2, 0x80, 0xBF) && CB(3, 0x80, 0xBF))) return 0; i += 4; }
    else if (c >= 0xF1 && c <= 0xF3) { if (!(CB(1, 0x80, 0xBF) && CB(2, 0x80, 0xBF) && CB(3, 0x80, 0xBF))) return 0; i += 4; }
    else if (c == 0xF4) { if (!(CB(1, 0x80, 0x8F) && CB(2, 0x80, 0xBF) && CB(3, 0x80, 0xBF))) return 0; i += 4; }
    else return 0;
#undef CB
  }
  return 1;
}
static _Bool ref_units_less(const uint16_t *a, size_t na, const uint16_t *b, size_t nb) {
  size_t m = na < nb ? na : nb;
  for (size_t i = 0; i < m; i++) if (a[i] != b[i]) return a[i] < b[i];
  return na < nb;
}
static void nd_key(pair_str_t_str_t_t *p) { __CPROVER_assume(p->first.n <= KEYN); p->first.d[p->first.n] = 0; p->second.n = 0; p->second.d[0] = 0; }
void harness(void) {
  pair_str_t_str_t_t a, b, c; nd_key(&a); nd_key(&b); nd_key(&c);
  _Bool ab = usp_sort__lambda1(&a, &b), ba = usp_sort__lambda1(&b, &a);
#ifdef ORDER_ONLY
  _Bool bc = usp_sort__lambda1(&b, &c), cb = usp_sort__lambda1(&c, &b), ac = usp_sort__lambda1(&a, &c), ca = usp_sort__lambda1(&c, &a);
  __CPROVER_assert(!usp_sort__lambda1(&a, &a), "postcondition: irreflexive");
  __CPROVER_assert(!(ab && ba), "postcondition: asymmetric");
  __CPROVER_assert(!(ab && bc) || ac, "postcondition: transitive");
  __CPROVER_assert(!(!ab && !ba && !bc && !cb) || (!ac && !ca), "postcondition: incomparability is transitive");
#else
  if (ref_utf8_ok(&a.first) && ref_utf8_ok(&b.first)) {
    uint16_t ua[KEYN + 1], ub[KEYN + 1];
    size_t na = ref_utf16(&a.first, ua), nb = ref_utf16(&b.first, ub);
    __CPROVER_assert(ab == ref_units_less(ua, na, ub, nb), "postcondition: on valid UTF-8 the comparator is < on UTF-16 code units");
  }
#endif
  CANARY_POINT;
}
