/* C18.ipv6_structure_plausible.sound@avx512: the AVX-512 build runs a one-load prefilter in front of the IPv6 parsers.  The
 * build configurations agree only if the prefilter never rejects a text that the Standard's IPv6 parser accepts. */
void harness(void) {
  HAVOC_BUFS;
  ND_SV(input);
  uint16_t ra[8];
  _Bool ok = ref_ipv6_parse(input, ra);
  _Bool plausible = ipv6_structure_plausible(input.p, input.n);
  __CPROVER_assert(!ok || plausible, "postcondition: the prefilter accepts every text the Standard's IPv6 parser accepts");
  CANARY_POINT;
}
