/* C10.parse_url_impl.host_type_from_base: whenever the parser takes the host over from the base URL (relative, relative-slash,
 * file, file-slash states) and does not replace it afterwards, the URL it hands out reports the base's host kind. */
void harness(void) {
  HAVOC_BUFS;
  ND_SV(user_input);
  struct url_aggregator base; base.base.is_valid = nondet_bool(); base.base.has_opaque_path = nondet_bool();
  __CPROVER_assume(AGG_SHAPE(&base));
  const struct url_aggregator *bp = nondet_bool() ? &base : (const struct url_aggregator *)0;
  g_host_from_base = 0;
  struct url_aggregator r = parse_url_impl_agg_1(user_input, bp);
  __CPROVER_assert(!(r.base.is_valid && g_host_from_base) || r.base.host_type == base.base.host_type, "postcondition: a host inherited from the base keeps the base's host kind");
  CANARY_POINT;
}
