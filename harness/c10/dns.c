/* C10.verify_dns_length.exact (bounded): equals the reference DNS length rule on inputs up to BUF_N bytes that
 * contain at most two dots (three labels; keeps the unwinding linear while still covering the 63-byte label limit,
 * empty labels, and the trailing-dot case). */
void harness(void) {
  HAVOC_BUFS;
  ND_SV(view);
  unsigned dots = 0;
  for (size_t i = 0; i < view.n; i++) if (view.p[i] == '.') dots++;
  __CPROVER_assume(dots <= 2);
  _Bool r = verify_dns_length(view);
  _Bool e = ref_dns_length_ok(view);
  __CPROVER_assert(r == e, "postcondition: verify_dns_length equals the reference (labels 1..63, total <= 253/254)");
  CANARY_POINT;
}
