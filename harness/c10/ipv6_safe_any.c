/* C02/C10.parse_ipv6.safe (any length): memory safety and absence of undefined behaviour of the real IPv6 parser for inputs of
 * ANY length: every loop is cut by its invariant (contracts/parse_ipv6.cut.spec), so one arbitrary iteration from an arbitrary state
 * satisfying the invariant is explored; every index into the 8-piece address array, every cursor step and every shift is in range. */
void harness(void) {
  HAVOC_BUFS;
  ND_SV(input);
#ifdef ONLY_URL
  struct url u = G_url_default;
  _Bool r1 = url_parse_ipv6(&u, input);
  __CPROVER_assert(r1 || !u.base.is_valid, "postcondition: failure is reported through is_valid");
  __CPROVER_assert(!r1 || (u.host.has && u.base.host_type == 2), "postcondition: success stores a host marked IPv6");
#else
  struct url_aggregator a = G_url_aggregator_default;
  _Bool r2 = agg_parse_ipv6(&a, input);
  __CPROVER_assert(r2 || !a.base.is_valid, "postcondition: failure is reported through is_valid");
  __CPROVER_assert(!r2 || a.base.host_type == 2, "postcondition: success marks the host IPv6");
#endif
  CANARY_POINT;
}
