/* C10/C04.parse_ipv6: ada::url::parse_ipv6 and ada::url_aggregator::parse_ipv6 satisfy ONE shared contract, the Standard's IPv6
 * parser followed by the Standard's IPv6 serializer: both succeed exactly when ref_ipv6_parse does, both fail by clearing
 * is_valid, on success both store '[' + serialization of the SAME 128-bit address + ']' and mark the host as IPv6.
 * IPV6_FROM_ADDRESS: the input is the Standard's serialization of an arbitrary address (all 2^128): parse o serialize = id. */
void harness(void) {
#ifdef IPV6_FROM_ADDRESS
  struct { uint16_t a[8]; } A0;
  ND_FILL_U16(A0, A0.a, 8);
  uint16_t *a0 = A0.a;
  char text[48]; sv_t input; input.n = ref_ipv6_serialize(a0, text); input.p = text;
#else
  HAVOC_BUFS;
  ND_SV(input);
#endif
#ifdef IPV6_FROM_ADDRESS
  /* the input IS the Standard's serialization of a0: the real parser must accept it and store exactly '[' input ']' (the real
   * serializer equals the Standard's for every address: C10.serializers.ipv6.exact), i.e. it recovered a0 */
  _Bool ok = 1; const char *ref = text; size_t rn = input.n;
#else
  uint16_t ra[8];
  _Bool ok = ref_ipv6_parse(input, ra);
  char ref[48]; size_t rn = ref_ipv6_serialize(ra, ref);
#endif
#ifndef ONLY_AGG
  struct url u = G_url_default;
  _Bool r1 = url_parse_ipv6(&u, input);
  __CPROVER_assert(r1 == ok, "postcondition: url::parse_ipv6 succeeds exactly when the Standard's IPv6 parser does");
  if (ok) {
    __CPROVER_assert(u.host.has && u.host.v.n == rn + 2 && u.host.v.d[0] == '[' && u.host.v.d[rn + 1] == ']', "postcondition: url stores a bracketed host of the Standard's length");
    __CPROVER_assert(g_k >= rn || u.host.v.d[1 + g_k] == ref[g_k], "postcondition: url stores the Standard's serialization of the Standard's address");
    __CPROVER_assert(u.base.host_type == 2 && u.base.is_valid, "postcondition: url marks the host as IPv6 and stays valid");
  } else __CPROVER_assert(!u.base.is_valid, "postcondition: url failure clears is_valid");
#endif
#ifndef ONLY_URL
  struct url_aggregator a = G_url_aggregator_default;
  g_host_written = 0;
  _Bool r2 = agg_parse_ipv6(&a, input);
  __CPROVER_assert(r2 == ok, "postcondition: url_aggregator::parse_ipv6 succeeds exactly when the Standard's IPv6 parser does");
  if (ok) {
    __CPROVER_assert(g_host_written == 1 && g_host.n == rn + 2, "postcondition: aggregator writes a host of the Standard's length + brackets");
    __CPROVER_assert(g_k == 0 || g_k > rn || g_host.d[g_k] == ref[g_k - 1], "postcondition: aggregator writes the Standard's serialization of the Standard's address");
    __CPROVER_assert(g_k != 0 || g_host.d[0] == '[', "postcondition: aggregator host opens with '['");
    __CPROVER_assert(g_k != rn + 1 || g_host.d[g_k] == ']', "postcondition: aggregator host closes with ']'");
    __CPROVER_assert(a.base.host_type == 2 && a.base.is_valid, "postcondition: aggregator marks the host as IPv6 and stays valid");
  } else __CPROVER_assert(!a.base.is_valid, "postcondition: aggregator failure clears is_valid");
#endif
  CANARY_POINT;
}
