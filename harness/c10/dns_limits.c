/* C10.verify_dns_length.limits (bounded, shaped inputs): domains made of up to 5 labels of the letter 'a' with
 * arbitrary label lengths 0..70 and an optional trailing dot (total up to 256 bytes): exercises exactly the 63-byte label
 * limit, the 253/254 total limit, empty labels and the trailing dot.  Byte-level generality is obligation .exact/b16. */
void harness(void) {
  NONDET(size_t, l0); NONDET(size_t, l1); NONDET(size_t, l2); NONDET(size_t, l3); NONDET(size_t, l4);
  NONDET(size_t, labels); NONDET(_Bool, trailing);
  __CPROVER_assume(l0 <= 70 && l1 <= 70 && l2 <= 70 && l3 <= 70 && l4 <= 70 && labels >= 1 && labels <= 5);
  size_t d0 = l0, d1 = d0 + 1 + l1, d2 = d1 + 1 + l2, d3 = d2 + 1 + l3, d4 = d3 + 1 + l4;   /* positions of the dots */
  size_t n = labels == 1 ? d0 : labels == 2 ? d1 : labels == 3 ? d2 : labels == 4 ? d3 : d4;
  size_t total = n + (trailing ? 1 : 0);
  __CPROVER_assume(total <= BUF_N);
  for (size_t i = 0; i < BUF_N; i++)
    g_buf[i] = (i < total && (i == d0 || i == d1 || i == d2 || i == d3 || i == d4) && (i < n || trailing)) ? '.' : 'a';
  sv_t view = {g_buf, total};
  _Bool r = verify_dns_length(view);
  _Bool e = ref_dns_length_ok(view);
  __CPROVER_assert(r == e, "postcondition: verify_dns_length equals the reference (labels 1..63, total <= 253/254)");
  CANARY_POINT;
}
