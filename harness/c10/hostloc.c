/* C01.get_host_delimiter_location.exact (bounded): the real function, with the real delimiter kernels inlined,
 * equals the reference bracket-aware scan on every input of up to BUF_N bytes, special or not. */
void harness(void) {
  HAVOC_BUFS;
  ND_SV(view);
  NONDET(_Bool, is_special);
  sv_t orig = view;
  pair_size_t_Bool_t r = get_host_delimiter_location(is_special, &view);
  ref_hostloc_t e = ref_host_delimiter(orig, is_special);
  __CPROVER_assert(r.first == e.loc, "postcondition: location equals the reference host-end scan");
  __CPROVER_assert(r.second == e.colon, "postcondition: found_colon equals the reference");
  __CPROVER_assert(view.p == orig.p && view.n == r.first, "postcondition: view is truncated to the host");
  CANARY_POINT;
}
