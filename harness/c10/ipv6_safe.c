/* C02/C10.parse_ipv6.safe: memory safety and absence of undefined behaviour of the real IPv6 parsers for EVERY input the
 * function admits (it rejects length 0 and length > 45 before reading anything; lengths 0..46 are explored, 46 standing
 * for "too long"): every index into the 8-piece address array, every pointer step and every shift is in range. */
void harness(void) {
  HAVOC_BUFS;
  ND_SV(input);
#ifndef ONLY_AGG
  struct url u = G_url_default;
  _Bool r1 = url_parse_ipv6(&u, input);
  __CPROVER_assert(r1 == (u.base.is_valid != 0) || r1, "postcondition: failure is reported through is_valid");
#endif
#ifndef ONLY_URL
  struct url_aggregator a = G_url_aggregator_default;
  _Bool r2 = agg_parse_ipv6(&a, input);
  __CPROVER_assert(r2 || !a.base.is_valid, "postcondition: failure is reported through is_valid");
#endif
  CANARY_POINT;
}
