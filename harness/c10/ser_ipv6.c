/* C10/C05.serializers.ipv6: for all 2^128 addresses the real serializer (find_longest_sequence_of_ipv6_pieces, write_hex_u16)
 * equals the Standard's IPv6 serializer in brackets. */
void harness(void) {
  arr_uint16_t_8_t a;
  ND_FILL_U16(a, a.a, 8);
  str_t s = serializers_ipv6(&a);
  char ref[48]; size_t rn = ref_ipv6_serialize(a.a, ref);
  __CPROVER_assert(s.n == rn + 2 && s.d[0] == '[' && s.d[s.n - 1] == ']', "postcondition: bracketed, length of the Standard's serialization + 2");
  __CPROVER_assert(g_k >= rn || s.d[1 + g_k] == ref[g_k], "postcondition: bytes equal the Standard's IPv6 serializer");
  CANARY_POINT;
}
