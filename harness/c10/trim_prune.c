/* C01.trim_c0_whitespace / prune_hash exact (bounded) */
void harness(void) {
  HAVOC_BUFS;
  ND_SV(view);
  sv_t t = view;
  trim_c0_whitespace(&t);
  sv_t e = ref_trim_c0(view);
  __CPROVER_assert(t.n == e.n && (t.n == 0 || t.p == e.p), "postcondition: leading/trailing C0-or-space bytes removed, nothing else");
  sv_t h = view;
  opt_sv_t f = prune_hash(&h);
  size_t k = 0; while (k < view.n && view.p[k] != '#') k++;
  __CPROVER_assert(f.has == (k < view.n), "postcondition: fragment present iff a '#' occurs");
  __CPROVER_assert(h.p == view.p && h.n == k, "postcondition: input is cut at the first '#'");
  __CPROVER_assert(!f.has || (f.v.p == view.p + k + 1 && f.v.n == view.n - k - 1), "postcondition: fragment is everything after the first '#'");
  CANARY_POINT;
}
