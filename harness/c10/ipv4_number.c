/* C10.parse_ipv4_number.value (bounded): on the token that ends at the first '.' or at the end of the input the real
 * number parser agrees with the Standard's IPv4 number parser: same success, same value (when <= 2^32-1; larger values
 * must be rejected or reported so that the caller's range test fails), the cursor stops at the '.' / end, and
 * is_pure_decimal is true exactly for a decimal (no 0x / leading-0) token. */
void harness(void) {
  HAVOC_BUFS;
  ND_SV(view);
  const char *p = view.p; const char *end = view.p + view.n;
  uint64_t value = 0; _Bool pure = 0;
  size_t tok = 0;
  while (tok < view.n && view.p[tok] != '.') tok++;
  _Bool r = parse_ipv4_number(&p, end, &value, &pure);
  uint64_t ev = 0;
  _Bool e = ref_ipv4_number(view.p, tok, &ev);
  if (e && ev <= 0xFFFFFFFFULL) {
    __CPROVER_assert(r, "postcondition: a valid number that fits 32 bits is accepted");
    __CPROVER_assert(value == ev, "postcondition: value equals the Standard's number");
    __CPROVER_assert(p == view.p + tok, "postcondition: cursor stops at the dot / end");
    _Bool dec = !(tok >= 2 && view.p[0] == '0');
    __CPROVER_assert(pure == dec, "postcondition: is_pure_decimal <=> decimal token");
  } else if (e) {
    /* number does not fit 32 bits: the IPv4 parser must fail; the helper may fail, or report a value > 2^32-1 */
    __CPROVER_assert(!r || value > 0xFFFFFFFFULL, "postcondition: out-of-range numbers are never reported as in-range");
  } else {
    __CPROVER_assert(!r, "postcondition: an invalid number is rejected");
  }
  CANARY_POINT;
}
