/* C10.try_parse_ipv4_fast.exact: domain-complete for lengths 0..BUF_N (the function itself rejects < 7 and > 16):
 * success <=> canonical dotted decimal (four parts, 1-3 digits, no leading zero, each <= 255, optional single trailing
 * dot), and then the value is the Standard's IPv4 parser's value. */
static _Bool canon_dotted(sv_t v) {
  size_t n = v.n;
  if (n > 0 && v.p[n - 1] == '.') n--;
  unsigned parts = 0; size_t i = 0;
  while (1) {
    size_t s = i; unsigned val = 0;
    while (i < n && v.p[i] >= '0' && v.p[i] <= '9' && i - s < 4) { val = val * 10 + (unsigned)(v.p[i] - '0'); i++; }
    size_t len = i - s;
    if (len == 0 || len > 3) return 0;
    if (len > 1 && v.p[s] == '0') return 0;
    if (val > 255) return 0;
    parts++;
    if (i == n) break;
    if (v.p[i] != '.') return 0;
    i++;
    if (parts == 4) return 0;
  }
  return parts == 4;
}
void harness(void) {
  HAVOC_BUFS;
  ND_SV(view);
  uint64_t r = FASTFN(view);
  _Bool c = canon_dotted(view);
  __CPROVER_assert((r != G_ipv4_fast_fail) == c, "postcondition: fast path succeeds exactly on canonical dotted decimal");
  uint32_t ev = 0;
  if (r != G_ipv4_fast_fail) {
    _Bool e = ref_ipv4(view, &ev);
    __CPROVER_assert(e, "postcondition: what the fast path accepts the Standard's IPv4 parser accepts");
    __CPROVER_assert(r == (uint64_t)ev, "postcondition: same 32-bit address as the Standard's IPv4 parser");
  }
  CANARY_POINT;
}
