/* C10/C05.serializers.ipv4: for all 2^32 addresses the real serializer writes the Standard's dotted decimal, and the real
 * fast parser maps it back to the same address (parse o serialize = identity). */
void harness(void) {
  NONDET(uint32_t, a);
  str_t s = serializers_ipv4((unsigned long)a);
  char ref[16]; size_t rn = ref_ipv4_serialize(a, ref);
  __CPROVER_assert(s.n == rn, "postcondition: length of the dotted-decimal serialization");
  __CPROVER_assert(g_k >= rn || s.d[g_k] == ref[g_k], "postcondition: bytes equal the Standard's IPv4 serializer");
  __CPROVER_assert(try_parse_ipv4_fast(str_sv(&s)) == (uint64_t)a, "postcondition: parsing the serialization gives the address back");
  CANARY_POINT;
}
