/* C10.is_ipv4.ends_in_number (bounded): equals the Standard's "ends in a number checker" on every non-empty
 * lower-case input of up to BUF_N bytes (call sites pass a non-empty, lower-cased ASCII host). */
void harness(void) {
  HAVOC_BUFS;
  ND_SV(view);
  __CPROVER_assume(view.n >= 1);
  _Bool r = is_ipv4(view);
  _Bool e = ref_ends_in_number(view);
  __CPROVER_assert(r == e, "postcondition: is_ipv4 equals the ends-in-a-number checker");
  CANARY_POINT;
}
