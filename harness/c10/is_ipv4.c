/* C10.is_ipv4.ends_in_number (bounded): equals the Standard's (case-insensitive) "ends in a number checker" on every non-empty
 * input without A-Z of up to BUF_N bytes (call sites pass a non-empty, lower-cased ASCII host). */
void harness(void) {
  HAVOC_BUFS;
  ND_SV(view);
  __CPROVER_assume(view.n >= 1);
  for (size_t i = 0; i < view.n; i++) __CPROVER_assume(!SPEC_ASCII_UPPER_ALPHA(view.p[i]));   /* precondition: the host was lower-cased by the caller */
  _Bool r = is_ipv4(view);
  _Bool e = ref_ends_in_number(view);
  __CPROVER_assert(r == e, "postcondition: is_ipv4 equals the ends-in-a-number checker");
  CANARY_POINT;
}
