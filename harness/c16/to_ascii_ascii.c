/* C16.to_ascii.ascii_path: for every all-ASCII domain the IDNA entry point returns the input with A-Z lower-cased and nothing
 * else changed (the URL Standard's rule for ASCII domains); hence inputs that differ only in ASCII case give the same result,
 * the result is lower-case ASCII, and converting a result again returns it unchanged (idempotence on this path). */
void harness(void) {
  HAVOC_BUFS;
  ND_SV(input);
  for (size_t i = 0; i < input.n; i++) __CPROVER_assume((unsigned char)input.p[i] < 0x80);
  str_t out; out.n = 0; out.d[0] = 0;
  _Bool ok = idna_to_ascii_out(input, &out);
  __CPROVER_assert(ok, "postcondition: an ASCII domain never fails in the IDNA step");
  __CPROVER_assert(out.n == input.n, "postcondition: same length");
  __CPROVER_assert(g_k >= input.n || out.d[g_k] == SPEC_TO_LOWER(input.p[g_k]), "postcondition: every byte is the ASCII lower-case of the input byte");
  str_t again; again.n = 0; again.d[0] = 0;
  _Bool ok2 = idna_to_ascii_out(str_sv(&out), &again);
  __CPROVER_assert(ok2 && again.n == out.n && (g_k >= out.n || again.d[g_k] == out.d[g_k]), "postcondition: converting the result again returns it unchanged");
  CANARY_POINT;
}
