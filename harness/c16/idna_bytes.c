/* C06/C16 byte-level pieces of the IDNA code: the second copy of the forbidden-domain-code-point table equals the Standard's
 * set, punycode digit <-> character maps are inverse bijections on 0..35 ("a".."z" = 0..25, "0".."9" = 26..35, RFC 3492 5). */
void harness(void) {
  NONDET(uint8_t, u); char c = (char)u;
  __CPROVER_assert(idna_is_forbidden_domain_code_point(c) == ((SPEC_FORBIDDEN_DOMAIN(u) || u >= 0x80) ? 1 : 0), "postcondition: idna forbidden domain code point table exact");
  int d = idna_char_to_digit_value(c);
  if (u >= 'a' && u <= 'z') __CPROVER_assert(d == u - 'a', "postcondition: a-z -> 0..25");
  else if (u >= '0' && u <= '9') __CPROVER_assert(d == u - '0' + 26, "postcondition: 0-9 -> 26..35");
  else __CPROVER_assert(d == -1, "postcondition: anything else is not a punycode digit");
  NONDET(int, v);
  __CPROVER_assume(v >= 0 && v < 36);
  char e = idna_digit_to_char(v);
  __CPROVER_assert(idna_char_to_digit_value(e) == v, "postcondition: digit_to_char is inverted by char_to_digit_value");
  __CPROVER_assert((e >= 'a' && e <= 'z') || (e >= '0' && e <= '9'), "postcondition: punycode output alphabet is lower-case letters and digits");
  CANARY_POINT;
}
