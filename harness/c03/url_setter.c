/* C03/C09/C19 skeleton obligation for one ada::url setter (twin of c03/setter.c).  The sub-parsers it calls are ABSTRACT; whatever
 * they do within their contracts,
 *   (atomic)  a setter that reports failure leaves every field exactly as it was;
 *   (record)  "a URL cannot have a username/password/port if its host is null or the empty string, or its scheme is file" holds
 *             after the call whenever it held before (success or failure);
 *   (size)    an href that fitted the configured maximum length before the call fits it afterwards, for every limit;
 *   (valid)   the object stays marked valid. */

void harness(void) {
  HAVOC_BUFS;
  ND_URL(u);
  __CPROVER_assume(URL_SHAPE(&u));
  __CPROVER_assume(E_ada_scheme_type_FILE == 6);
  __CPROVER_assume(URL_REC(&u));
  __CPROVER_assume(!u.base.has_opaque_path || !u.host.has);     /* an opaque-path URL has no host */
  ND_SV(input);
  struct url old = u;
  g_size_ok_before = url_get_href_size(&u) <= g_max_input_length;
  _Bool r = SETTER(&u, input);
  __CPROVER_assert(r || url_eqv(u, old), "postcondition: a setter that returns false leaves the URL exactly as it was");
  __CPROVER_assert(URL_REC(&u), "postcondition: no credentials and no port on a URL whose host is null or empty or whose scheme is file");
  __CPROVER_assert(!g_size_ok_before || url_get_href_size(&u) <= g_max_input_length, "postcondition: href length stays within the configured maximum");
  __CPROVER_assert(u.base.is_valid, "postcondition: the URL stays valid");
  CANARY_POINT;
}
