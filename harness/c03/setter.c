/* C03/C09 skeleton obligation for one url_aggregator setter.  Every callee that edits the object is ABSTRACT (replaced by a
 * contract that lets it write arbitrary contents): whatever the editors do,
 *   (atomic)  a setter that reports failure leaves every field of the object exactly as it was;
 *   (size)    an object whose href fitted the configured maximum length L before the call fits it after the call
 *             (success or failure), for every L;
 *   (valid)   the object stays marked valid.
 * Only the setter's own control flow is examined here -- which is where "forgot to restore" / "forgot the size check on this
 * exit" mistakes live. */
#define agg_eq(a, b) agg_eqv(*(a), *(b))
void harness(void) {
  HAVOC_BUFS;
  struct url_aggregator u;
  u.base.is_valid = 1; u.base.has_opaque_path = nondet_bool();   /* canonical _Bool values (a wholly nondet struct may hold non-0/1 bytes) */
  __CPROVER_assume(AGG_SHAPE(&u) && u.base.is_valid);
  ND_SV(input);
  struct url_aggregator old = u;
#ifdef SETTER_VOID
  SETTER(&u, input);
#else
  _Bool r = SETTER(&u, input);
  __CPROVER_assert(r || agg_eq(&u, &old), "postcondition: a setter that returns false leaves the URL exactly as it was");
#ifdef SETTER_CRED
  /* "A URL cannot have a username/password/port if its host is null or the empty string, or its scheme is file" */
  __CPROVER_assert(!(old.base.type == E_ada_scheme_type_FILE || old.components.host_start == old.components.host_end) || !r,
                   "postcondition: credentials / port are refused when the host is null or empty or the scheme is file");
#endif
#endif
  __CPROVER_assert(!(old.buffer.n <= g_max_input_length) || u.buffer.n <= g_max_input_length, "postcondition: href length stays within the configured maximum");
  __CPROVER_assert(u.base.is_valid, "postcondition: the URL stays valid");
  CANARY_POINT;
}
