/* C05.parse_url_impl.opaque_path_no_trailing_space: the href of an opaque-path URL never ends its path with a raw space.  Parser
 * skeleton (loops cut, sub-parsers and editors abstract): every text the state machine hands to update_base_pathname() for an
 * opaque-path URL does not end in a space -- checked as the PRECONDITION of the abstract editor at each call site (the opaque path
 * state encodes a final space as %20; a path inherited from an opaque base is taken from a URL that already obeys the rule). */
void harness(void) {
  HAVOC_BUFS;
  ND_SV(user_input);
  struct url_aggregator base; base.base.is_valid = nondet_bool(); base.base.has_opaque_path = nondet_bool();
  __CPROVER_assume(AGG_SHAPE(&base));
  size_t pend = base.components.search_start != OMITTED ? base.components.search_start : base.components.hash_start != OMITTED ? base.components.hash_start : base.buffer.n;
  __CPROVER_assume(!base.base.has_opaque_path || pend <= base.components.pathname_start || base.buffer.d[pend - 1] != ' ');   /* the base obeys the rule */
  __CPROVER_assume(base.base.type == E_ada_scheme_type_NOT_SPECIAL || !base.base.has_opaque_path);   /* a special URL has no opaque path */
  const struct url_aggregator *bp = nondet_bool() ? &base : (const struct url_aggregator *)0;
  struct url_aggregator r = parse_url_impl_agg_1(user_input, bp);
  (void)r;
  CANARY_POINT;
}
