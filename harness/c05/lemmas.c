/* C05 byte lemmas over the real sets (all 256 values):
 *  (printable)  a byte that an encode set leaves alone is plain printable ASCII 0x21..0x7E -- except that the C0-control set,
 *               used only for opaque paths / opaque hosts, also leaves the space (0x20) alone;
 *  (idempotent) '%', the upper-case hex digits and the decimal digits are in none of the six URL sets, so the output alphabet
 *               of an escape ("%HH") is never encoded again: re-serialising an already serialised component is the identity. */
void harness(void) {
  NONDET(uint8_t, c);
  const uint8_t *sets[6] = {G_C0_CONTROL_PERCENT_ENCODE, G_FRAGMENT_PERCENT_ENCODE, G_QUERY_PERCENT_ENCODE, G_SPECIAL_QUERY_PERCENT_ENCODE, G_PATH_PERCENT_ENCODE, G_USERINFO_PERCENT_ENCODE};
  for (int s = 0; s < 6; s++) {
    _Bool in = bit_at(sets[s], c);
    if (s == 0) __CPROVER_assert(in || (c >= 0x20 && c <= 0x7E), "postcondition: bytes kept by the C0-control set are 0x20..0x7E");
    else __CPROVER_assert(in || (c >= 0x21 && c <= 0x7E), "postcondition: bytes kept by the set are printable ASCII 0x21..0x7E");
    if (c == '%' || (c >= '0' && c <= '9') || (c >= 'A' && c <= 'F'))
      __CPROVER_assert(!in, "postcondition: the escape alphabet (% 0-9 A-F) is never itself encoded");
  }
  CANARY_POINT;
}
