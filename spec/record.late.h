/* /verif/spec/record.late.h -- record-level facts of the URL Standard (4.1 "URL representation", 4.2 "special scheme",
 * scheme state with a state override) phrased over the REAL enumerators of ada::scheme::type (E_ada_scheme_type_*, dumped from
 * /repo by tabdump -- this header is therefore included after the dumped data). */
#ifndef VERIF_SPEC_RECORD_LATE_H
#define VERIF_SPEC_RECORD_LATE_H
/* "A special scheme is an ASCII string that is listed in the first column of the following table":
 *    ftp 21, file null, http 80, https 443, ws 80, wss 443 */
static inline _Bool ref_ci_eq(sv_t v, const char *lit, size_t n) {
  if (v.n != n) return 0;
  for (size_t i = 0; i < n; i++) if (SPEC_TO_LOWER(v.p[i]) != lit[i]) return 0;
  return 1;
}
/* the scheme type of the ASCII-lower-cased text (the scheme state lower-cases the buffer before it is compared) */
static inline int ref_scheme_type_lower(sv_t scheme) {
  if (ref_ci_eq(scheme, "http", 4)) return E_ada_scheme_type_HTTP;
  if (ref_ci_eq(scheme, "https", 5)) return E_ada_scheme_type_HTTPS;
  if (ref_ci_eq(scheme, "ws", 2)) return E_ada_scheme_type_WS;
  if (ref_ci_eq(scheme, "wss", 3)) return E_ada_scheme_type_WSS;
  if (ref_ci_eq(scheme, "ftp", 3)) return E_ada_scheme_type_FTP;
  if (ref_ci_eq(scheme, "file", 4)) return E_ada_scheme_type_FILE;
  return E_ada_scheme_type_NOT_SPECIAL;
}
/* what the callers of the scheme parsers guarantee (set_protocol / scheme state: the buffer holds ASCII alphanumerics, '+', '-', '.') */
static inline _Bool ref_all_scheme_chars(sv_t v) { for (size_t i = 0; i < v.n; i++) if (!SPEC_SCHEME_CHAR(v.p[i])) return 0; return 1; }
#define REF_TYPE_SPECIAL(t) ((t) != E_ada_scheme_type_NOT_SPECIAL)
/* default port of a scheme type; 0 = null */
#define REF_DEFAULT_PORT(t) ((t) == E_ada_scheme_type_HTTP || (t) == E_ada_scheme_type_WS ? 80u : \
                             (t) == E_ada_scheme_type_HTTPS || (t) == E_ada_scheme_type_WSS ? 443u : \
                             (t) == E_ada_scheme_type_FTP ? 21u : 0u)
#endif
