/* reference validity for the class of inputs on which ada's try_can_parse_absolute_fast may answer, written from the URL
 * Standard: no base URL; after stripping leading/trailing C0-control-or-space:
 *   - empty input, or first byte not an ASCII alpha            -> failure (no scheme and no base);
 *   - a byte that is not alnum + - . before the first ':' (within the scheme) -> failure (no scheme state, no base);
 *   - special non-file scheme followed by "//", any further '/' or '\' skipped, then an authority that is pure ASCII and has
 *     no '@' '%' tab/newline, no forbidden domain code point before the port colon, no "xn--":
 *       host = bytes up to the first ':' (or authority end); empty host -> failure;
 *       host "ends in a number" -> valid iff the IPv4 parser accepts it; otherwise the lower-cased host is the domain (valid);
 *       port = bytes after the first ':' up to the authority end: empty is fine, else ASCII digits only with value <= 65535.
 *   Everything after the authority (path, query, fragment) cannot fail.
 * Returns 0 invalid, 1 valid, 2 not in the class (the reference does not decide). */
#ifndef VERIF_SPEC_REF_CANPARSE_H
#define VERIF_SPEC_REF_CANPARSE_H
static inline int ref_can_parse_class(sv_t in) {
  const unsigned char *b = (const unsigned char *)in.p; size_t n = in.n;
  while (n > 0 && b[0] <= 0x20) { b++; n--; }
  while (n > 0 && b[n - 1] <= 0x20) n--;
  if (n == 0) return 0;
  if (!SPEC_ASCII_ALPHA(b[0])) return 0;
  size_t colon = 0;
  for (size_t i = 1; ; i++) {
    if (i >= n) return 2;                      /* no ':' at all: relative reference -> failure without base, but ada defers */
    if (b[i] == ':') { colon = i; break; }
    if (SPEC_TAB_OR_NEWLINE(b[i])) return 2;
    if (!SPEC_SCHEME_CHAR(b[i])) return 0;
    if (i >= 7) return 2;
  }
  /* scheme, ASCII case-insensitively */
  char s[8]; for (size_t i = 0; i < colon && i < 8; i++) s[i] = (char)(b[i] | 0x20);
  sv_t sch = {s, colon};
  _Bool special_nonfile = colon <= 5 && (IS_HTTP(sch) || IS_HTTPS(sch) || IS_WS(sch) || IS_WSS(sch) || IS_FTP(sch));
  if (!special_nonfile) return 2;
  size_t pos = colon + 1;
  if (!(pos + 2 <= n && b[pos] == '/' && b[pos + 1] == '/')) return 2;
  pos += 2;
  while (pos < n && (b[pos] == '/' || b[pos] == '\\')) pos++;
  size_t auth_start = pos, auth_end = pos, port_colon = (size_t)-1;
  for (; auth_end < n; auth_end++) {
    unsigned char c = b[auth_end];
    if (c == '/' || c == '?' || c == '#' || c == '\\') break;
    if (c >= 0x80 || c == '@' || c == '%' || SPEC_TAB_OR_NEWLINE(c)) return 2;
    if (c == ':') { if (port_colon == (size_t)-1) port_colon = auth_end; continue; }
    if (port_colon == (size_t)-1 && SPEC_FORBIDDEN_DOMAIN(c)) return 2;
  }
  size_t host_end = port_colon != (size_t)-1 ? port_colon : auth_end;
  if (host_end == auth_start) return 0;
  /* xn-- anywhere in the host: IDNA -> not in the class */
  for (size_t i = auth_start; i + 4 <= host_end; i++)
    if ((b[i] | 0x20) == 'x' && (b[i + 1] | 0x20) == 'n' && b[i + 2] == '-' && b[i + 3] == '-') return 2;
  char low[BUF_N + 1]; size_t hn = host_end - auth_start;
  for (size_t i = 0; i < hn; i++) { unsigned char c = b[auth_start + i]; low[i] = (char)(SPEC_ASCII_UPPER_ALPHA(c) ? c + 32 : c); }
  sv_t host = {low, hn};
  if (ref_ends_in_number(host)) { uint32_t a; if (!ref_ipv4(host, &a)) return 0; }
  if (port_colon != (size_t)-1) {
    uint32_t v = 0;
    for (size_t i = port_colon + 1; i < auth_end; i++) {
      unsigned char c = b[i];
      if (!SPEC_ASCII_DIGIT(c)) return 0;
      if (v <= 65535) v = v * 10 + (c - '0');
    }
    if (v > 65535) return 0;
  }
  return 1;
}
#endif
