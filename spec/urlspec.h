/* /verif/spec/urlspec.h -- byte-level predicates transcribed from the prose of the WHATWG URL Standard
 * (https://url.spec.whatwg.org/, sections 1.3 "percent-encoded bytes", 3.1 "host representation",
 * 4.1/4.4).  Written from the text, NOT copied from the tables in /repo.  All macros take an
 * unsigned value 0..255 (a byte of the UTF-8 encoding; bytes >= 0x80 stand for code points > U+007E). */
#ifndef VERIF_SPEC_URLSPEC_H
#define VERIF_SPEC_URLSPEC_H

#define U8(c) ((unsigned)(unsigned char)(c))

/* "A C0 control is a code point in the range U+0000 NULL to U+001F, inclusive."
 * "The C0 control percent-encode set are the C0 controls and all code points greater than U+007E (~)." */
#define SPEC_IN_C0(c)        (U8(c) <= 0x1F || U8(c) > 0x7E)
/* "The fragment percent-encode set is the C0 control percent-encode set and U+0020 SPACE, U+0022 ("), U+003C (<),
 *  U+003E (>), and U+0060 (`)." */
#define SPEC_IN_FRAGMENT(c)  (SPEC_IN_C0(c) || U8(c) == 0x20 || U8(c) == 0x22 || U8(c) == 0x3C || U8(c) == 0x3E || U8(c) == 0x60)
/* "The query percent-encode set is the C0 control percent-encode set and U+0020 SPACE, U+0022 ("), U+0023 (#),
 *  U+003C (<), and U+003E (>)." */
#define SPEC_IN_QUERY(c)     (SPEC_IN_C0(c) || U8(c) == 0x20 || U8(c) == 0x22 || U8(c) == 0x23 || U8(c) == 0x3C || U8(c) == 0x3E)
/* "The special-query percent-encode set is the query percent-encode set and U+0027 (')." */
#define SPEC_IN_SPECIAL_QUERY(c) (SPEC_IN_QUERY(c) || U8(c) == 0x27)
/* "The path percent-encode set is the query percent-encode set and U+003F (?), U+005E (^), U+0060 (`), U+007B ({),
 *  and U+007D (})." */
#define SPEC_IN_PATH(c)      (SPEC_IN_QUERY(c) || U8(c) == 0x3F || U8(c) == 0x5E || U8(c) == 0x60 || U8(c) == 0x7B || U8(c) == 0x7D)
/* "The userinfo percent-encode set is the path percent-encode set and U+002F (/), U+003A (:), U+003B (;),
 *  U+003D (=), U+0040 (@), U+005B ([) to U+005D (]), inclusive, and U+007C (|)." */
#define SPEC_IN_USERINFO(c)  (SPEC_IN_PATH(c) || U8(c) == 0x2F || U8(c) == 0x3A || U8(c) == 0x3B || U8(c) == 0x3D || U8(c) == 0x40 || \
                              (U8(c) >= 0x5B && U8(c) <= 0x5D) || U8(c) == 0x7C)
/* "The component percent-encode set is the userinfo percent-encode set and U+0024 ($) to U+0026 (&), inclusive,
 *  U+002B (+), and U+002C (,)."
 * "The application/x-www-form-urlencoded percent-encode set is the component percent-encode set and U+0021 (!),
 *  U+0027 (') to U+0029 RIGHT PARENTHESIS, inclusive, and U+007E (~)."  (space is in the set; the serializer
 *  then replaces %20 by '+', which ada does after encoding) */
#define SPEC_IN_COMPONENT(c) (SPEC_IN_USERINFO(c) || (U8(c) >= 0x24 && U8(c) <= 0x26) || U8(c) == 0x2B || U8(c) == 0x2C)
#define SPEC_IN_FORM(c)      (SPEC_IN_COMPONENT(c) || U8(c) == 0x21 || (U8(c) >= 0x27 && U8(c) <= 0x29) || U8(c) == 0x7E)
/* application/x-www-form-urlencoded *byte serializer*: "0x20 (SP): append U+002B (+)"; 0x2A 0x2D 0x2E 0x30-39 0x41-5A 0x5F
 * 0x61-7A: append the byte; "Otherwise: append the percent-encoding of byte".  So the bytes that come out as %HH are
 * the form set minus space (space must reach the output as '+', never as %20). */
#define SPEC_FORM_ESCAPED(c) (SPEC_IN_FORM(c) && U8(c) != 0x20)
#define SPEC_FORM_VERBATIM(c) (SPEC_ASCII_ALNUM(c) || U8(c) == 0x2A || U8(c) == 0x2D || U8(c) == 0x2E || U8(c) == 0x5F)

/* ASCII classes (Infra Standard) */
#define SPEC_ASCII_DIGIT(c)      (U8(c) >= 0x30 && U8(c) <= 0x39)
#define SPEC_ASCII_UPPER_ALPHA(c) (U8(c) >= 0x41 && U8(c) <= 0x5A)
#define SPEC_ASCII_LOWER_ALPHA(c) (U8(c) >= 0x61 && U8(c) <= 0x7A)
#define SPEC_ASCII_ALPHA(c)      (SPEC_ASCII_UPPER_ALPHA(c) || SPEC_ASCII_LOWER_ALPHA(c))
#define SPEC_ASCII_ALNUM(c)      (SPEC_ASCII_DIGIT(c) || SPEC_ASCII_ALPHA(c))
#define SPEC_ASCII_HEX(c)        (SPEC_ASCII_DIGIT(c) || (U8(c) >= 0x41 && U8(c) <= 0x46) || (U8(c) >= 0x61 && U8(c) <= 0x66))
#define SPEC_LOWER_HEX(c)        (SPEC_ASCII_DIGIT(c) || (U8(c) >= 0x61 && U8(c) <= 0x66))
/* scheme state: "ASCII alphanumeric, U+002B (+), U+002D (-), or U+002E (.)" */
#define SPEC_SCHEME_CHAR(c)      (SPEC_ASCII_ALNUM(c) || U8(c) == 0x2B || U8(c) == 0x2D || U8(c) == 0x2E)
/* "ASCII tab or newline is U+0009 TAB, U+000A LF, or U+000D CR." */
#define SPEC_TAB_OR_NEWLINE(c)   (U8(c) == 0x09 || U8(c) == 0x0A || U8(c) == 0x0D)
/* "C0 control or space" */
#define SPEC_C0_OR_SPACE(c)      (U8(c) <= 0x20)

/* "A forbidden host code point is U+0000 NULL, U+0009 TAB, U+000A LF, U+000D CR, U+0020 SPACE, U+0023 (#), U+002F (/),
 *  U+003A (:), U+003C (<), U+003E (>), U+003F (?), U+0040 (@), U+005B ([), U+005C (\), U+005D (]), U+005E (^), or U+007C (|)." */
#define SPEC_FORBIDDEN_HOST(c) (U8(c) == 0x00 || U8(c) == 0x09 || U8(c) == 0x0A || U8(c) == 0x0D || U8(c) == 0x20 || U8(c) == 0x23 || \
   U8(c) == 0x2F || U8(c) == 0x3A || U8(c) == 0x3C || U8(c) == 0x3E || U8(c) == 0x3F || U8(c) == 0x40 || U8(c) == 0x5B || \
   U8(c) == 0x5C || U8(c) == 0x5D || U8(c) == 0x5E || U8(c) == 0x7C)
/* "A forbidden domain code point is a forbidden host code point, a C0 control, U+0025 (%), or U+007F DELETE."
 * ada applies the table to the *ASCII result* of domain-to-ASCII, whose bytes are all < 0x80; bytes >= 0x80
 * cannot occur there, and the table marks them forbidden.  SPEC_FORBIDDEN_DOMAIN is the Standard's set on 0..0x7F. */
#define SPEC_FORBIDDEN_DOMAIN(c) (SPEC_FORBIDDEN_HOST(c) || U8(c) <= 0x1F || U8(c) == 0x25 || U8(c) == 0x7F)

/* upper-case hex digit of a nibble: "percent-encode a byte: U+0025 (%), followed by two ASCII upper hex digits" */
#define SPEC_HEXU(n) ((char)((n) < 10 ? '0' + (n) : 'A' + ((n) - 10)))
#define SPEC_HEXL(n) ((char)((n) < 10 ? '0' + (n) : 'a' + ((n) - 10)))
#define SPEC_HEXVAL(c) (SPEC_ASCII_DIGIT(c) ? U8(c) - 0x30 : (U8(c) >= 0x41 && U8(c) <= 0x46) ? U8(c) - 0x41 + 10 : U8(c) - 0x61 + 10)

/* ASCII lowercase of a byte: only U+0041..U+005A change */
#define SPEC_TO_LOWER(c) ((char)(SPEC_ASCII_UPPER_ALPHA(c) ? U8(c) + 0x20 : U8(c)))

/* spec-side names of extracted predicates, used inside loop invariants of <algorithm> instances (no calls allowed there) */
#define SPEC_is_digit(c) SPEC_ASCII_DIGIT(c)
#define SPEC_is_ascii_digit(c) SPEC_ASCII_DIGIT(c)
#define SPEC_is_lowercase_hex(c) SPEC_LOWER_HEX(c)
#define SPEC_is_alnum_plus(c) SPEC_SCHEME_CHAR(c)
#define SPEC_is_tabs_or_newline(c) SPEC_TAB_OR_NEWLINE(c)
#define SPEC_is_ascii_tab_or_newline(c) SPEC_TAB_OR_NEWLINE(c)
#define SPEC_is_forbidden_host_code_point(c) SPEC_FORBIDDEN_HOST(c)
#define SPEC_is_forbidden_domain_code_point(c) (SPEC_FORBIDDEN_DOMAIN(c) || U8(c) >= 0x80)

#endif
