/* /verif/spec/ref_host.h -- executable reference specifications written from the URL Standard's prose
 * (host state, "ends in a number checker", IPv4 number parser, IPv4 parser, IPv6 parser, IPv4/IPv6 serializer)
 * and RFC 1035 length limits.  Plain loops, no tricks; used as the right-hand side of post-conditions. */
#ifndef VERIF_SPEC_REF_HOST_H
#define VERIF_SPEC_REF_HOST_H

/* ---- host state scan, as ada structures it: the host ends at the first ':' '/' '?' (and '\' if special) that is not
 * inside a "[...]" group; a '[' without a closing ']' swallows the rest.  (The Standard ends the host at '/' '?' even
 * inside brackets; such hosts fail host parsing either way, so the difference is unobservable -- see DESIGN.md.) */
typedef struct { size_t loc; _Bool colon; } ref_hostloc_t;
static inline ref_hostloc_t ref_host_delimiter(sv_t v, _Bool special) {
  ref_hostloc_t r; r.colon = 0;
  _Bool inside = 0;
  size_t i = 0;
  for (; i < v.n; i++) {
    char c = v.p[i];
    if (inside) { if (c == ']') inside = 0; continue; }
    if (c == '[') {
      /* look for the closing bracket: if there is none the whole rest belongs to the host */
      _Bool closes = 0;
      for (size_t j = i; j < v.n; j++) if (v.p[j] == ']') { closes = 1; break; }
      if (!closes) { i = v.n; break; }
      inside = 1; continue;
    }
    if (c == ':') { r.colon = 1; break; }
    if (c == '/' || c == '?' || (special && c == '\\')) break;
  }
  r.loc = i;
  return r;
}

/* ---- "ends in a number checker" (URL Standard 3.5): split on '.', drop one trailing empty label, last label is
 * all ASCII digits (non-empty) or 0x/0X followed by (possibly zero) ASCII hex digits of either case -- exactly the Standard's
 * checker.  ada::checkers::is_ipv4 only recognises the lower-case spellings; its PRECONDITION (stated in the harness and checked
 * at the fast path's call site by C01.try_parse_simple_absolute<url_aggregator>.standard) is that the host holds no A-Z. */
static inline _Bool ref_ends_in_number(sv_t v) {
  size_t n = v.n;
  if (n > 0 && v.p[n - 1] == '.') { n--; if (n == 0) return 0; }
  if (n == 0) return 0;
  size_t start = n;                      /* start of the last label */
  while (start > 0 && v.p[start - 1] != '.') start--;
  size_t len = n - start;
  if (len == 0) return 0;
  _Bool all_digits = 1;
  for (size_t i = start; i < n; i++) if (!(v.p[i] >= '0' && v.p[i] <= '9')) all_digits = 0;
  if (all_digits) return 1;
  if (len >= 2 && v.p[start] == '0' && (v.p[start + 1] == 'x' || v.p[start + 1] == 'X')) {
    for (size_t i = start + 2; i < n; i++) {
      char c = v.p[i];
      if (!SPEC_ASCII_HEX(c)) return 0;
    }
    return 1;
  }
  return 0;
}

/* ---- DNS length limits (RFC 1035 2.3.4 as used by has_valid_domain): total 1..253 (254 with a trailing dot that
 * stands for the root), every label 1..63 */
static inline _Bool ref_dns_length_ok(sv_t v) {
  if (v.n == 0) return 0;
  size_t n = v.n;
  _Bool trailing = v.p[n - 1] == '.';
  if (trailing ? n > 254 : n > 253) return 0;
  size_t label = 0;
  for (size_t i = 0; i < n; i++) {
    if (v.p[i] == '.') {
      if (label == 0 || label > 63) return 0;
      label = 0;
    } else label++;
  }
  if (!trailing && (label == 0 || label > 63)) return 0;
  return 1;
}

/* ---- IPv4 number parser (URL Standard 3.5 "IPv4 number parser") on one dot-free part.
 * returns 0 = failure, 1 = ok; *val (exact up to 2^64 saturating: values > 2^32-1 are reported as 2^32). */
#define REF_IPV4_TOO_BIG 0x100000000ULL
static inline _Bool ref_ipv4_number(const char *p, size_t n, uint64_t *val) {
  if (n == 0) return 0;                            /* "If input is the empty string, then return failure." */
  unsigned R = 10;
  if (n >= 2 && p[0] == '0' && (p[1] == 'x' || p[1] == 'X')) { p += 2; n -= 2; R = 16; }
  else if (n >= 2 && p[0] == '0') { p += 1; n -= 1; R = 8; }
  if (n == 0) { *val = 0; return 1; }              /* "If input is the empty string, then return (0, true)." */
  uint64_t v = 0;
  for (size_t i = 0; i < n; i++) {
    char c = p[i]; unsigned d;
    if (c >= '0' && c <= '9') d = (unsigned)(c - '0');
    else if (c >= 'a' && c <= 'f') d = (unsigned)(c - 'a') + 10;
    else if (c >= 'A' && c <= 'F') d = (unsigned)(c - 'A') + 10;
    else return 0;
    if (d >= R) return 0;                          /* "If input contains a code point that is not a radix-R digit, failure" */
    if (v < REF_IPV4_TOO_BIG) { v = v * R + d; if (v >= REF_IPV4_TOO_BIG) v = REF_IPV4_TOO_BIG; }
  }
  *val = v;
  return 1;
}

/* ---- IPv4 parser (URL Standard 3.5): split on '.', drop one trailing empty part, > 4 parts fail, each part a
 * number, all but the last <= 255, last < 256^(5-count); value = last + sum part[i]*256^(3-i). */
static inline _Bool ref_ipv4(sv_t v, uint32_t *out) {
  size_t n = v.n;
  if (n > 0 && v.p[n - 1] == '.') n--;             /* "If the last item in parts is the empty string ... remove it" */
  if (n == 0) return 0;                            /* a single empty part: IPv4 number parser fails on it */
  uint64_t nums[4]; unsigned count = 0;
  size_t start = 0;
  for (size_t i = 0; i <= n; i++) {
    if (i == n || v.p[i] == '.') {
      if (count == 4) return 0;                    /* "If parts's size is greater than 4, validation error, return failure." */
      uint64_t x;
      if (!ref_ipv4_number(v.p + start, i - start, &x)) return 0;
      nums[count++] = x;
      start = i + 1;
    }
  }
  for (unsigned i = 0; i + 1 < count; i++) if (nums[i] > 255) return 0;
  uint64_t limit = count == 1 ? 0x100000000ULL : count == 2 ? 0x1000000ULL : count == 3 ? 0x10000ULL : 0x100ULL;
  if (nums[count - 1] >= limit) return 0;
  uint64_t ip = nums[count - 1];
  for (unsigned i = 0; i + 1 < count; i++) ip += nums[i] << (8 * (3 - i));
  *out = (uint32_t)ip;
  return 1;
}

/* ---- IPv4 serializer: four decimal numbers separated by '.', most significant first; writes <= 15 bytes */
static inline size_t ref_ipv4_serialize(uint32_t a, char *out) {
  size_t k = 0;
  for (int i = 0; i < 4; i++) {
    unsigned b = (a >> (8 * (3 - i))) & 0xFF;
    if (b >= 100) out[k++] = (char)('0' + b / 100);
    if (b >= 10) out[k++] = (char)('0' + (b / 10) % 10);
    out[k++] = (char)('0' + b % 10);
    if (i < 3) out[k++] = '.';
  }
  return k;
}

/* ---- IPv6 serializer (URL Standard 3.6 "IPv6 serializer"): find the first longest run of >= 2 zero pieces ("compress"),
 * lower-case hex without leading zeros, "::" for the compressed run.  Output without brackets; returns length (<= 39). */
static inline size_t ref_ipv6_serialize(const uint16_t *a, char *out) {
  int compress = -1, best = 1;       /* "sequences of length 1 are ignored": only runs longer than 1 */
  for (int i = 0; i < 8; ) {
    if (a[i] != 0) { i++; continue; }
    int j = i; while (j < 8 && a[j] == 0) j++;
    if (j - i > best) { best = j - i; compress = i; }
    i = j;
  }
  size_t k = 0; _Bool ignore0 = 0;
  for (int i = 0; i < 8; i++) {
    if (ignore0 && a[i] == 0) continue; else if (ignore0) ignore0 = 0;
    if (compress == i) {
      out[k++] = ':'; if (i == 0) out[k++] = ':';
      ignore0 = 1; continue;
    }
    unsigned v = a[i]; _Bool started = 0;
    for (int sh = 12; sh >= 0; sh -= 4) {
      unsigned d = (v >> sh) & 15;
      if (d != 0 || started || sh == 0) { out[k++] = SPEC_HEXL(d); started = 1; }
    }
    if (i != 7) out[k++] = ':';
  }
  return k;
}

/* ---- IPv6 parser (URL Standard 3.5 "IPv6 parser"), input without brackets; 1 = ok and address filled */
static inline _Bool ref_ipv6_parse(sv_t in, uint16_t *address) {
  for (int i = 0; i < 8; i++) address[i] = 0;
  int pieceIndex = 0, compress = -1;
  size_t p = 0, n = in.n;
#define C_ (p < n ? (int)(unsigned char)in.p[p] : -1)
  if (C_ == ':') {
    if (!(p + 1 < n && in.p[p + 1] == ':')) return 0;
    p += 2; pieceIndex++; compress = pieceIndex;
  }
  while (C_ != -1) {
    if (pieceIndex == 8) return 0;
    if (C_ == ':') {
      if (compress != -1) return 0;
      p++; pieceIndex++; compress = pieceIndex; continue;
    }
    unsigned value = 0; int length = 0;
    while (length < 4 && C_ != -1 && SPEC_ASCII_HEX(C_)) { value = value * 16 + SPEC_HEXVAL(C_); p++; length++; }
    if (C_ == '.') {
      if (length == 0) return 0;
      p -= (size_t)length;
      if (pieceIndex > 6) return 0;
      int numbersSeen = 0;
      while (C_ != -1) {
        int ipv4Piece = -1;
        if (numbersSeen > 0) {
          if (C_ == '.' && numbersSeen < 4) p++; else return 0;
        }
        if (!(C_ != -1 && SPEC_ASCII_DIGIT(C_))) return 0;
        while (C_ != -1 && SPEC_ASCII_DIGIT(C_)) {
          int number = C_ - '0';
          if (ipv4Piece == -1) ipv4Piece = number;
          else if (ipv4Piece == 0) return 0;
          else ipv4Piece = ipv4Piece * 10 + number;
          if (ipv4Piece > 255) return 0;
          p++;
        }
        address[pieceIndex] = (uint16_t)(address[pieceIndex] * 0x100 + ipv4Piece);
        numbersSeen++;
        if (numbersSeen == 2 || numbersSeen == 4) pieceIndex++;
      }
      if (numbersSeen != 4) return 0;
      break;
    } else if (C_ == ':') {
      p++;
      if (C_ == -1) return 0;
    } else if (C_ != -1) return 0;
    address[pieceIndex] = (uint16_t)value;
    pieceIndex++;
  }
  if (compress != -1) {
    int swaps = pieceIndex - compress;
    pieceIndex = 7;
    while (pieceIndex != 0 && swaps > 0) {
      uint16_t t = address[compress + swaps - 1];
      address[compress + swaps - 1] = address[pieceIndex];
      address[pieceIndex] = t;
      pieceIndex--; swaps--;
    }
  } else if (pieceIndex != 8) return 0;
#undef C_
  return 1;
}

/* ---- leading/trailing "C0 control or space" trimming */
static inline sv_t ref_trim_c0(sv_t v) {
  while (v.n > 0 && (unsigned char)v.p[0] <= 0x20) { v.p++; v.n--; }
  while (v.n > 0 && (unsigned char)v.p[v.n - 1] <= 0x20) { v.n--; }
  return v;
}
#endif
