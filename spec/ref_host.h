/* /verif/spec/ref_host.h -- executable reference specifications written from the URL Standard's prose
 * (host state, "ends in a number checker", IPv4 number parser, IPv4 parser, IPv6 parser, IPv4/IPv6 serializer)
 * and RFC 1035 length limits.  Plain loops, no tricks; used as the right-hand side of post-conditions. */
#ifndef VERIF_SPEC_REF_HOST_H
#define VERIF_SPEC_REF_HOST_H

/* ---- host state scan, as ada structures it: the host ends at the first ':' '/' '?' (and '\' if special) that is not
 * inside a "[...]" group; a '[' without a closing ']' swallows the rest.  (The Standard ends the host at '/' '?' even
 * inside brackets; such hosts fail host parsing either way, so the difference is unobservable -- see DESIGN.md.) */
typedef struct { size_t loc; _Bool colon; } ref_hostloc_t;
static inline ref_hostloc_t ref_host_delimiter(sv_t v, _Bool special) {
  ref_hostloc_t r; r.colon = 0;
  _Bool inside = 0;
  size_t i = 0;
  for (; i < v.n; i++) {
    char c = v.p[i];
    if (inside) { if (c == ']') inside = 0; continue; }
    if (c == '[') {
      /* look for the closing bracket: if there is none the whole rest belongs to the host */
      _Bool closes = 0;
      for (size_t j = i; j < v.n; j++) if (v.p[j] == ']') { closes = 1; break; }
      if (!closes) { i = v.n; break; }
      inside = 1; continue;
    }
    if (c == ':') { r.colon = 1; break; }
    if (c == '/' || c == '?' || (special && c == '\\')) break;
  }
  r.loc = i;
  return r;
}

/* ---- "ends in a number checker" (URL Standard 3.5): split on '.', drop one trailing empty label, last label is
 * all ASCII digits (non-empty) or 0x/0X followed by (possibly zero) hex digits.  ada::checkers::is_ipv4 is called on
 * a non-empty, already lower-cased host, so upper-case hex / "0X" need not be recognised (pre-condition). */
static inline _Bool ref_ends_in_number(sv_t v) {
  size_t n = v.n;
  if (n > 0 && v.p[n - 1] == '.') { n--; if (n == 0) return 0; }
  if (n == 0) return 0;
  size_t start = n;                      /* start of the last label */
  while (start > 0 && v.p[start - 1] != '.') start--;
  size_t len = n - start;
  if (len == 0) return 0;
  _Bool all_digits = 1;
  for (size_t i = start; i < n; i++) if (!(v.p[i] >= '0' && v.p[i] <= '9')) all_digits = 0;
  if (all_digits) return 1;
  if (len >= 2 && v.p[start] == '0' && (v.p[start + 1] == 'x')) {
    for (size_t i = start + 2; i < n; i++) {
      char c = v.p[i];
      if (!((c >= '0' && c <= '9') || (c >= 'a' && c <= 'f'))) return 0;
    }
    return 1;
  }
  return 0;
}

/* ---- DNS length limits (RFC 1035 2.3.4 as used by has_valid_domain): total 1..253 (254 with a trailing dot that
 * stands for the root), every label 1..63 */
static inline _Bool ref_dns_length_ok(sv_t v) {
  if (v.n == 0) return 0;
  size_t n = v.n;
  _Bool trailing = v.p[n - 1] == '.';
  if (trailing ? n > 254 : n > 253) return 0;
  size_t label = 0;
  for (size_t i = 0; i < n; i++) {
    if (v.p[i] == '.') {
      if (label == 0 || label > 63) return 0;
      label = 0;
    } else label++;
  }
  if (!trailing && (label == 0 || label > 63)) return 0;
  return 1;
}

/* ---- IPv4 number parser (URL Standard 3.5 "IPv4 number parser") on one dot-free part.
 * returns 0 = failure, 1 = ok; *val (exact up to 2^64 saturating: values > 2^32-1 are reported as 2^32). */
#define REF_IPV4_TOO_BIG 0x100000000ULL
static inline _Bool ref_ipv4_number(const char *p, size_t n, uint64_t *val) {
  if (n == 0) return 0;                            /* "If input is the empty string, then return failure." */
  unsigned R = 10;
  if (n >= 2 && p[0] == '0' && (p[1] == 'x' || p[1] == 'X')) { p += 2; n -= 2; R = 16; }
  else if (n >= 2 && p[0] == '0') { p += 1; n -= 1; R = 8; }
  if (n == 0) { *val = 0; return 1; }              /* "If input is the empty string, then return (0, true)." */
  uint64_t v = 0;
  for (size_t i = 0; i < n; i++) {
    char c = p[i]; unsigned d;
    if (c >= '0' && c <= '9') d = (unsigned)(c - '0');
    else if (c >= 'a' && c <= 'f') d = (unsigned)(c - 'a') + 10;
    else if (c >= 'A' && c <= 'F') d = (unsigned)(c - 'A') + 10;
    else return 0;
    if (d >= R) return 0;                          /* "If input contains a code point that is not a radix-R digit, failure" */
    if (v < REF_IPV4_TOO_BIG) { v = v * R + d; if (v >= REF_IPV4_TOO_BIG) v = REF_IPV4_TOO_BIG; }
  }
  *val = v;
  return 1;
}

/* ---- IPv4 parser (URL Standard 3.5): split on '.', drop one trailing empty part, > 4 parts fail, each part a
 * number, all but the last <= 255, last < 256^(5-count); value = last + sum part[i]*256^(3-i). */
static inline _Bool ref_ipv4(sv_t v, uint32_t *out) {
  size_t n = v.n;
  if (n > 0 && v.p[n - 1] == '.') n--;             /* "If the last item in parts is the empty string ... remove it" */
  if (n == 0) return 0;                            /* a single empty part: IPv4 number parser fails on it */
  uint64_t nums[4]; unsigned count = 0;
  size_t start = 0;
  for (size_t i = 0; i <= n; i++) {
    if (i == n || v.p[i] == '.') {
      if (count == 4) return 0;                    /* "If parts's size is greater than 4, validation error, return failure." */
      uint64_t x;
      if (!ref_ipv4_number(v.p + start, i - start, &x)) return 0;
      nums[count++] = x;
      start = i + 1;
    }
  }
  for (unsigned i = 0; i + 1 < count; i++) if (nums[i] > 255) return 0;
  uint64_t limit = count == 1 ? 0x100000000ULL : count == 2 ? 0x1000000ULL : count == 3 ? 0x10000ULL : 0x100ULL;
  if (nums[count - 1] >= limit) return 0;
  uint64_t ip = nums[count - 1];
  for (unsigned i = 0; i + 1 < count; i++) ip += nums[i] << (8 * (3 - i));
  *out = (uint32_t)ip;
  return 1;
}

/* ---- IPv4 serializer: four decimal numbers separated by '.', most significant first; writes <= 15 bytes */
static inline size_t ref_ipv4_serialize(uint32_t a, char *out) {
  size_t k = 0;
  for (int i = 0; i < 4; i++) {
    unsigned b = (a >> (8 * (3 - i))) & 0xFF;
    if (b >= 100) out[k++] = (char)('0' + b / 100);
    if (b >= 10) out[k++] = (char)('0' + (b / 10) % 10);
    out[k++] = (char)('0' + b % 10);
    if (i < 3) out[k++] = '.';
  }
  return k;
}

/* ---- leading/trailing "C0 control or space" trimming */
static inline sv_t ref_trim_c0(sv_t v) {
  while (v.n > 0 && (unsigned char)v.p[0] <= 0x20) { v.p++; v.n--; }
  while (v.n > 0 && (unsigned char)v.p[v.n - 1] <= 0x20) { v.n--; }
  return v;
}
#endif
