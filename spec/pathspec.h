/* URL Standard 4.? : "A Windows drive letter is two code points, of which the first is an ASCII alpha and the second is
 * either U+003A (:) or U+007C (|)."  "A normalized Windows drive letter is a Windows drive letter of which the second
 * code point is U+003A (:)."  "A string starts with a Windows drive letter if: its length >= 2, its first two code
 * points are a Windows drive letter, and its length is 2 or its third code point is U+002F (/), U+005C (\), U+003F (?),
 * or U+0023 (#)."  (ada's is_windows_drive_letter implements the *starts with* notion; for a 2-byte input both agree.)
 * "A single-dot URL path segment is a URL path segment that is "." or an ASCII case-insensitive match for "%2e"."
 * "A double-dot URL path segment is ".." or an ASCII case-insensitive match for ".%2e", "%2e.", or "%2e%2e"." */
#ifndef VERIF_SPEC_PATHSPEC_H
#define VERIF_SPEC_PATHSPEC_H
#define B(v, i) ((v).p[i])
#define SPEC_STARTS_WITH_DRIVE(v) ((v).n >= 2 && SPEC_ASCII_ALPHA(B(v,0)) && (B(v,1) == ':' || B(v,1) == '|') && \
   ((v).n == 2 || B(v,2) == '/' || B(v,2) == '\\' || B(v,2) == '?' || B(v,2) == '#'))
#define SPEC_NORMALIZED_DRIVE(v) ((v).n == 2 && SPEC_ASCII_ALPHA(B(v,0)) && B(v,1) == ':')
#define IS_E(c) ((c) == 'e' || (c) == 'E')
#define PCT2E(v, i) (B(v,i) == '%' && B(v,(i)+1) == '2' && IS_E(B(v,(i)+2)))
#define SPEC_SINGLE_DOT(v) (((v).n == 1 && B(v,0) == '.') || ((v).n == 3 && PCT2E(v,0)))
#define SPEC_DOUBLE_DOT(v) (((v).n == 2 && B(v,0) == '.' && B(v,1) == '.') || \
   ((v).n == 4 && B(v,0) == '.' && PCT2E(v,1)) || ((v).n == 4 && PCT2E(v,0) && B(v,3) == '.') || \
   ((v).n == 6 && PCT2E(v,0) && PCT2E(v,3)))
/* has_hex_prefix: "0x" or "0X" */
#define SPEC_HEX_PREFIX(v) ((v).n >= 2 && B(v,0) == '0' && (B(v,1) == 'x' || B(v,1) == 'X'))
/* special schemes (URL Standard 4.2): ftp 21, file null, http 80, https 443, ws 80, wss 443 */
#define EQ2(v,a,b) ((v).n == 2 && B(v,0)==a && B(v,1)==b)
#define EQ3(v,a,b,c) ((v).n == 3 && B(v,0)==a && B(v,1)==b && B(v,2)==c)
#define EQ4(v,a,b,c,d) ((v).n == 4 && B(v,0)==a && B(v,1)==b && B(v,2)==c && B(v,3)==d)
#define EQ5(v,a,b,c,d,e) ((v).n == 5 && B(v,0)==a && B(v,1)==b && B(v,2)==c && B(v,3)==d && B(v,4)==e)
#define IS_HTTP(v) EQ4(v,'h','t','t','p')
#define IS_HTTPS(v) EQ5(v,'h','t','t','p','s')
#define IS_WS(v) EQ2(v,'w','s')
#define IS_WSS(v) EQ3(v,'w','s','s')
#define IS_FTP(v) EQ3(v,'f','t','p')
#define IS_FILE(v) EQ4(v,'f','i','l','e')
#define SPEC_IS_SPECIAL(v) (IS_HTTP(v) || IS_HTTPS(v) || IS_WS(v) || IS_WSS(v) || IS_FTP(v) || IS_FILE(v))
#define SPEC_DEFAULT_PORT(v) (IS_HTTP(v) ? 80 : IS_HTTPS(v) ? 443 : IS_WS(v) ? 80 : IS_WSS(v) ? 443 : IS_FTP(v) ? 21 : 0)
/* ada::scheme::type enumerators, values taken from the real header by tabdump (E_ada_scheme_type_*) */
#define SPEC_SCHEME_TYPE(v) (IS_HTTP(v) ? E_ada_scheme_type_HTTP : IS_HTTPS(v) ? E_ada_scheme_type_HTTPS : IS_WS(v) ? E_ada_scheme_type_WS : \
   IS_WSS(v) ? E_ada_scheme_type_WSS : IS_FTP(v) ? E_ada_scheme_type_FTP : IS_FILE(v) ? E_ada_scheme_type_FILE : E_ada_scheme_type_NOT_SPECIAL)
#endif
