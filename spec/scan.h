/* byte classes used by the scanning kernels; from the URL Standard's host state / authority state:
 * host state ends at ':' (outside brackets), '/', '?', '#'(already pruned), EOF, and '\' for special URLs; '[' opens brackets */
#ifndef VERIF_SPEC_SCAN_H
#define VERIF_SPEC_SCAN_H
#define HOST_DELIM(c)         ((c) == ':' || (c) == '/' || (c) == '?' || (c) == '[')
#define HOST_DELIM_SPECIAL(c) (HOST_DELIM(c) || (c) == '\\')
#define AUTH_DELIM(c)         ((c) == '@' || (c) == '/' || (c) == '?')
#define AUTH_DELIM_SPECIAL(c) (AUTH_DELIM(c) || (c) == '\\')
/* membership of byte c in a 256-bit set stored as uint8_t[32] (what character_sets::bit_at computes) */
#define BIT_AT(set, c) ((((set)[(uint8_t)(c) >> 3]) >> ((uint8_t)(c) & 7)) & 1)
#endif
