/* /verif/spec/agg_wf.h -- the representation invariant WF(u) of ada::url_aggregator and its abstract view.
 *
 * href layout (URL Standard 4.5 "URL serializer", as stored in `buffer`):
 *     scheme ":" [ "//" [ user [":" pass] "@" ] host [ ":" port ] ] [ "/." ] path [ "?" query ] [ "#" fragment ]
 * components: protocol_end = |scheme ":"|, username_end, host_start (points at '@' when credentials are present,
 * otherwise at the first host byte), host_end, port (value or omitted), pathname_start, search_start, hash_start
 * (offset of '?' / '#', or omitted).
 *
 * WF is what every public operation must re-establish; it is *stronger* than the library's own validate()
 * (obligation C07.WF_implies_validate shows validate() accepts every WF object).
 * Content constraints are the ones the editors and getters actually rely on to find delimiters:
 *   scheme: no ':' ; userinfo: no ':' '@' '/' '?' '#' ; host: no '@' '/' '?' '#' (a ':' only inside [...]) ;
 *   port digits: ASCII digits, value == components.port, no leading zero ; path: no '?' '#' ; query: no '#'.
 */
#ifndef VERIF_SPEC_AGG_WF_H
#define VERIF_SPEC_AGG_WF_H

typedef struct {
  sv_t scheme;            /* without ':' */
  _Bool has_authority;
  sv_t username; _Bool has_password; sv_t password;
  sv_t host;
  _Bool has_port; sv_t port_digits;
  _Bool dash_dot;
  sv_t path;
  _Bool has_search; sv_t search;   /* without '?' */
  _Bool has_hash; sv_t hash;       /* without '#' */
  _Bool pending_at;                /* parser-only transient: credentials written (P2: and the '@'), the host not yet; the buffer ends there */
} agg_view_t;

static inline _Bool wf_no_byte(const char *p, size_t a, size_t b, char c1, char c2, char c3, char c4, char c5) {
  for (size_t i = a; i < b; i++) {
    char c = p[i];
    if (c == c1 || c == c2 || c == c3 || c == c4 || c == c5) return 0;
  }
  return 1;
}

/* Decomposes u into its view following the layout; returns 0 if u does not have the layout (not WF). */
static inline _Bool agg_wf_view(const struct url_aggregator *u, agg_view_t *v) {
  const str_t *b = &u->buffer;
  const struct url_components *c = &u->components;
  size_t n = b->n;
  if (n > STR_CAP || b->d[n] != 0) return 0;
  /* scheme */
  size_t pe = c->protocol_end;
  if (pe < 2 || pe > n) return 0;                 /* a parsed URL has a non-empty scheme */
  if (b->d[pe - 1] != ':') return 0;
  if (!wf_no_byte(b->d, 0, pe - 1, ':', '/', '?', '#', '@')) return 0;
  v->scheme = (sv_t){b->d, pe - 1};
  size_t ue = c->username_end, hs = c->host_start, he = c->host_end, ps = c->pathname_start;
  if (!(pe <= ue && ue <= hs && hs <= he && he <= ps && ps <= n)) return 0;
  v->pending_at = 0;
  v->has_authority = (n >= pe + 2 && b->d[pe] == '/' && b->d[pe + 1] == '/' && ue >= pe + 2);
  v->has_password = 0; v->password = (sv_t){b->d, 0}; v->username = (sv_t){b->d, 0};
  if (v->has_authority) {
    v->username = (sv_t){b->d + pe + 2, ue - (pe + 2)};
    if (!wf_no_byte(b->d, pe + 2, ue, ':', '@', '/', '?', '#')) return 0;
    if (hs > ue) {
      if (b->d[ue] != ':') return 0;
      if (hs == ue + 1) return 0;                  /* a stored password is non-empty: every editor drops the ':' with an empty password */
      v->has_password = 1;
      v->password = (sv_t){b->d + ue + 1, hs - (ue + 1)};
      if (!wf_no_byte(b->d, ue + 1, hs, ':', '@', '/', '?', '#')) return 0;
    }
    _Bool cred = hs > pe + 2;
    v->pending_at = 0;
    if (cred && hs == n) {
      /* parser-only transient P1: update_base_authority() has copied the base's credentials, update_host_to_base_host() has
       * not yet added the '@' and the host; the buffer ends with the credentials */
      if (!(he == hs && ps == hs && c->port == OMITTED)) return 0;
      v->pending_at = 1;
      v->host = (sv_t){b->d + hs, 0};
    } else if (cred) {
      if (b->d[hs] != '@') return 0;                /* '@' terminates the credentials */
      if (he < hs + 1) return 0;
      v->host = (sv_t){b->d + hs + 1, he - (hs + 1)};
    } else {
      v->host = (sv_t){b->d + hs, he - hs};
    }
    if (!wf_no_byte(v->host.p, 0, v->host.n, '@', '/', '?', '#', '\\')) return 0;
    /* a ':' in the host only inside brackets (IPv6): a host that does not start with '[' has no ':' */
    if (!(v->host.n > 0 && v->host.p[0] == '[') && !wf_no_byte(v->host.p, 0, v->host.n, ':', ':', ':', ':', ':')) return 0;
    /* credentials or port require a non-empty host (URL Standard: cannot-have-a-username/password/port) ... */
    if ((cred || c->port != OMITTED) && v->host.n == 0 && !v->pending_at) {
      /* ... except (transient P2) inside the parser between the authority and host states: append_base_username/password have
       * written the credentials and the '@', update_base_hostname() has not run yet, and the buffer ends after the '@' */
      if (!(cred && c->port == OMITTED && he == n)) return 0;
      v->pending_at = 1;
    }
  } else {
    if (!(ue == pe && hs == pe && he == pe)) return 0;
    v->host = (sv_t){b->d + pe, 0};
    if (c->port != OMITTED) return 0;
  }
  /* port */
  v->has_port = c->port != OMITTED; v->port_digits = (sv_t){b->d + he, 0}; v->dash_dot = 0;
  if (v->has_port) {
    if (c->port > 65535) return 0;
    if (!(ps >= he + 2 && ps <= he + 6)) return 0;
    if (b->d[he] != ':') return 0;
    v->port_digits = (sv_t){b->d + he + 1, ps - (he + 1)};
    uint32_t val = 0;
    for (size_t i = he + 1; i < ps; i++) {
      if (!(b->d[i] >= '0' && b->d[i] <= '9')) return 0;
      val = val * 10 + (uint32_t)(b->d[i] - '0');
    }
    if (val != c->port) return 0;
    if (ps - (he + 1) > 1 && b->d[he + 1] == '0') return 0;
  } else if (ps != he) {
    /* "/." guard: only without authority, non-opaque, and the path then starts with "//" */
    if (!(ps == he + 2 && b->d[he] == '/' && b->d[he + 1] == '.')) return 0;
    if (v->has_authority || u->base.has_opaque_path) return 0;
    if (!(ps + 1 < n && b->d[ps] == '/' && b->d[ps + 1] == '/')) return 0;
    v->dash_dot = 1;
  }
  /* path / query / fragment */
  size_t ss = c->search_start, hh = c->hash_start;
  size_t path_end = n;
  v->has_search = ss != OMITTED; v->has_hash = hh != OMITTED;
  if (v->has_hash) { if (!(hh >= ps && hh < n && b->d[hh] == '#')) return 0; path_end = hh; }
  if (v->has_search) {
    if (!(ss >= ps && ss < n && b->d[ss] == '?')) return 0;
    if (v->has_hash && ss >= hh) return 0;
    path_end = ss;
  }
  v->path = (sv_t){b->d + ps, path_end - ps};
  if (!wf_no_byte(b->d, ps, path_end, '?', '#', '#', '#', '#')) return 0;
  v->search = (sv_t){b->d, 0}; v->hash = (sv_t){b->d, 0};
  if (v->has_search) {
    size_t qe = v->has_hash ? hh : n;
    v->search = (sv_t){b->d + ss + 1, qe - (ss + 1)};
    if (!wf_no_byte(b->d, ss + 1, qe, '#', '#', '#', '#', '#')) return 0;
  }
  if (v->has_hash) v->hash = (sv_t){b->d + hh + 1, n - (hh + 1)};
  /* record-level facts the editors rely on */
  if (!u->base.has_opaque_path) {
    /* a non-opaque path is empty or starts with '/'; with an authority... */
    if (v->path.n > 0 && v->path.p[0] != '/') return 0;
    /* without authority a path starting with "//" must be guarded by "/." */
    if (!v->has_authority && !v->dash_dot && v->path.n >= 2 && v->path.p[1] == '/') return 0;
  } else {
    if (v->has_authority) return 0;               /* an opaque-path URL has no host */
  }
  if (!u->base.is_valid) return 0;
  return 1;
}

static inline _Bool agg_wf(const struct url_aggregator *u) { agg_view_t v; return agg_wf_view(u, &v); }

static inline _Bool view_sv_eq(sv_t a, sv_t b) {
  if (a.n != b.n) return 0;
  for (size_t i = 0; i < a.n; i++) if (a.p[i] != b.p[i]) return 0;
  return 1;
}
#endif
