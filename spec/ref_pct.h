/* executable reference specs for percent-encoding (URL Standard 1.3) and application/x-www-form-urlencoded decoding (5.1) */
#ifndef VERIF_SPEC_REF_PCT_H
#define VERIF_SPEC_REF_PCT_H
/* "To percent-encode a byte byte, return a string consisting of U+0025 (%), followed by two ASCII upper hex digits
 *  representing byte."  percent-encode after encoding: bytes in the set are escaped, all others copied. */
static inline size_t ref_percent_encode(sv_t in, const uint8_t *set, char *out) {
  size_t k = 0;
  for (size_t i = 0; i < in.n; i++) {
    uint8_t b = (uint8_t)in.p[i];
    if (BIT_AT(set, b)) { out[k++] = '%'; out[k++] = SPEC_HEXU(b >> 4); out[k++] = SPEC_HEXU(b & 15); }
    else out[k++] = (char)b;
  }
  return k;
}
/* "To percent-decode a byte sequence input": for each byte: if byte is not 0x25 (%), append it; otherwise if the next
 *  two bytes are not in the ranges 0-9, A-F, a-f, append byte (the '%'); otherwise append the decoded byte and skip two. */
static inline size_t ref_percent_decode(sv_t in, char *out, _Bool plus_is_space) {
  size_t k = 0, i = 0;
  while (i < in.n) {
    char c = in.p[i];
    if (c == '%' && i + 2 < in.n + 0 && SPEC_ASCII_HEX(in.p[i + 1]) && SPEC_ASCII_HEX(in.p[i + 2])) {
      out[k++] = (char)(SPEC_HEXVAL(in.p[i + 1]) * 16 + SPEC_HEXVAL(in.p[i + 2])); i += 3;
    } else if (plus_is_space && c == '+') { out[k++] = ' '; i++; }
    else { out[k++] = c; i++; }
  }
  return k;
}
static inline _Bool ref_bytes_eq(const char *a, size_t na, const char *b, size_t nb) {
  if (na != nb) return 0;
  for (size_t i = 0; i < na; i++) if (a[i] != b[i]) return 0;
  return 1;
}
#endif
